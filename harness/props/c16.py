"""C16 — saving, loading and copying reproduce objects exactly.
Correspondence between Model/C16_*.v and the HDF5 / data-frame / CSV / VCF / copy code of pybrops, plus the
independent predicate (round trip = identity on the observable state, stated on the implementation's outputs)."""
import os, sys, json, struct, hashlib, copy as _copy, math, io, warnings
from fractions import Fraction
import numpy
import coqemit as E

ID = "C16"
PROPS = "Props/C16.v"
IMPORTS = ("From Coq Require Import String PrimFloat.\nFrom PV Require Import Lib.Common Lib.C16_Spec Model.C16_Store Model.C16_Heap Model.C16_Codec "
           "Gen.C16_Fields Gen.C16_Kernel Model.C16_Kernel Model.C16_Maps Model.C16_Multi Model.C16_Vcf.")
SHARD = 40
SERIAL = False
LEVEL_TEXT = ("Coq theorems over executable models of (1) the HDF5 store with h5py_File_write_dict, the typed readers and the table-driven "
              "to_hdf5/from_hdf5 of 12 classes: for every persistable class (the genomic models with their dictionary of hyper-parameters "
              "included), every well-formed prior file content, group name and well-typed object, a successful overwrite followed by a read "
              "returns exactly the attributes written (dictionary members as a finite map, python numbers as numpy scalars), hence after any "
              "sequence of overwrites the last object (UTF-8 round trip proved for all unicode scalar strings); refutations by computation "
              "for the former code (None fields skipped; nested dictionaries never cleared; str hyper-parameters read as bytes) and, for the "
              "code as it stands, for a hyper-parameter whose value is None (dropped); (2) a heap model of copy/deepcopy: copies observe "
              "the source's values, a deep copy lives in freshly allocated cells closed under reachability and no mutation of them is visible "
              "through the source; (3) VCF import (positionally exact; with grouping a stable sort + run-length metadata), stated also from the TEXT of the "
              "file: a data line -> the attributes cyvcf2 derives (CHROM, POS as a 32-bit field, start, end = start + len(REF), ID) -> the record each "
              "importer builds through the attribute selectors regenerated from both from_vcf bodies (the position is variant.start + 1, 64-bit); every array equals its column of the file for "
              "EVERY coordinate, REF / ALT (deletions, insertions, MNPs) play no part; the defect that was repaired in the library (position read from the 32-bit variant.POS: a "
              "coordinate >= 2^31 came back reduced modulo 2^32) is kept as a refutation about the former definition old_vcf_text_import, which is proved equal to the current one below 2^31; and the data-frame "
              "codecs (Morgan genetic maps lossless; the egmap file pair reproduces every extended map, marker names and function codes "
              "included, and both map constructors keep the interpolation kind / fill value they are given - the two defects that were "
              "repaired in the library are kept as refutations about the former definitions old_egmap_to / old_egmap_from / "
              "old_egmap_ctor_kind; (4) several objects in ONE file: a write under group g (any writer version, class, object, flag, prior content, "
              "successful or not) leaves every path outside g untouched - only an empty ancestor group of g can appear -, the object stored under "
              "a group path that is not a prefix of g nor has g as a prefix reads back exactly as before (all classes, dictionary attributes "
              "included), through whole interleaved histories, and every to_hdf5 opens a file given by name in mode 'a' (row per class "
              "regenerated from the source), so by name or by handle is the same; refutations for cM rounding, breeding-value location/scale, sorted variance-matrix labels, "
              "absent labels, default arguments on the two sides of the genetic-map codecs); every attribute a copy (shallow or deep) duplicates is a cell "
              "allocated by that copy. Field lists, readers and copy modes (Gen/C16_Fields.v) and the kernel expressions on which the "
              "theorems turn (Gen/C16_Kernel.v: field name, the three delete conditions and the recursive call of h5py_File_write_dict, the "
              "decode condition of h5py_File_read_dict, the group-name normalisation of all 18 to_hdf5/from_hdf5 bodies, the unit conversions, "
              "default units, constructor spline arguments, egmap column names, the condition under which from_egmap reads an optional column and by-name/by-position column selections of the table readers, "
              "the long-table layout of the variance-matrix codec, for both from_vcf bodies (matched statement by statement) the attribute expression appended to "
              "vrnt_chrgrp / vrnt_phypos / vrnt_name, the allele columns kept, the transposition, the summed axis and the constructor routing, "
              "the mode of `h5py.File(filename, <mode>)` and the exact set of statements that touch the "
              "file object in each of the 12 to_hdf5 bodies) are extracted from the source by ast translators on every run; the "
              "round-trip theorems are restated about the code written with the generated definitions, proved equal to the hand model by "
              "conversion, so a changed expression leaves the obligations undischarged whatever the sampled cases exercise. The models are "
              "tied to the code by evaluating them inside Coq against real HDF5 files, CSV / egmap files, data frames, VCF text parsed by "
              "cyvcf2, the typed readers called directly, and copy/mutation experiments.")
LEVEL_NOTE = ("trusted: Coq kernel + vm_compute, PrimFloat primitives (data-frame codecs), h5py/HDF5 (modelled as a path->node map with "
              "create/delete/membership), pandas (frames are compared cell by cell; CSV text is not modelled: the frame pandas parses back is an "
              "input of the model), cyvcf2 (VCF text -> attributes of a record; its 32-bit POS, 64-bit start/end are modelled as observed; the importers read start), numpy copy semantics (ndarray.__copy__/__deepcopy__ duplicate the buffer). "
              "Theorems are about the Gallina models; the tie to the code is differential on generated inputs plus the regenerated field tables. "
              "Not proved: general (all-size) round trips of the wide/long data-frame "
              "codecs other than Morgan genetic maps and egmap files, class-level (all attributes at once) copy equality. "
              "DenseSquareTaxaTraitMatrix's own data-frame codec is checked by the predicate only (no Coq model); the CSV writers are "
              "observed through the frame pandas parses back.")
TECHNIQUE = "Coq proof over executable store/codec/heap models; in-Coq vm_compute correspondence with the implementation; ast-generated field tables and kernel expressions"
RULE = ("case kinds from one PRNG: h5 (class, group name incl. nested/non-ASCII/absolute, 1-3 objects written to the same location with "
        "overwrite flags, rich->poor sequences, optional fields all/none/mixed, grouped or arbitrary metadata, file name or open handle; the "
        "object written comes from the constructor, from copy.copy / copy.deepcopy, or is the object of the previous step updated in place "
        "through its setters; layouts with more than 127 / 255 taxa or variants; int64 positions beyond 2^53), rd (every typed reader and "
        "mh5 (2-4 locations of ONE file - nested 'a' and 'a/b', sibling prefixes 'a/b' / 'a/bc' / 'a/bcd', 'a' / 'ab', the root, spelling variants - each "
        "bound to a class, every persistable class in turn written by str / pathlib.Path name after another location exists and again through an open "
        "handle, 3-7 interleaved writes with overwrite both ways; after EVERY write the whole file is listed and every location written so far is "
        "read back by name / Path / handle and compared with the last object written there), rd (every typed reader and "
        "h5py_File_read_dict / has_group called directly on files written with h5py itself: all dtypes, values that wrap in int8, scalar and "
        "array strings, invalid UTF-8), wd "
        "(h5py_File_write_dict called directly with nested dictionaries, None items, str/bytes members, a dictionary replacing data and the reverse), copy (14 classes x "
        "each of copy/deepcopy/.copy()/.deepcopy() in turn, source possibly itself a copy, hyper-parameter dictionaries with ndarray / list / "
        "dictionary members, non-default interpolation kinds; then every mutable value reachable from the copy is mutated in place: arrays, "
        "dictionary members, lists, members of member dictionaries), vcf (1-4 samples, 1-6 phased diploid records, unsorted, '.' identifiers, non-ASCII "
        "names, phased and unphased class, with and without grouping, a share with tied coordinates; and 'rich' files cycling importer x "
        "auto_group_vrnt: deletions (REF of 2-9 bases), insertions, MNPs, several ALT alleles and symbolic ones, '.' / duplicated / 'None' / "
        "non-ASCII identifiers, 1-4 contigs (numbers up to 2^31+5) whose header order is as drawn and records in file, contig-block or sorted "
        "order, coordinates 1..40, up to 10^7, up to 2^30, at 2^31-1 and - one case in seven - at and beyond 2^31 / 2^32 (ordinary cases since the repair of the 32-bit wrap: they must agree), 130-300 samples in one case out of "
        "nine, duplicated coordinates, all four phased calls; every vcf case is evaluated in Coq from the text of its lines), df (8 classes via pandas or CSV with "
        "matching options, columns addressed by name or by position, dyadic and awkward floats, sorted/unsorted and absent labels, cM/M units, "
        "default arguments on both sides, interpolation kind handed to the reader, ExtendedGeneticMap through to_egmap/from_egmap and through "
        "hand-written egmap files with the documented header); non-trivial = an object with both present "
        "and absent optional fields or a sequence of >= 2 writes / any copy, vcf, df, wd, rd case; distinct by SHA-256 of the case")
TRUSTED = ["h5py/HDF5 semantics: membership test, delete of a group removes its subtree, create_dataset creates missing groups and refuses existing names",
           "h5py.File modes as modelled by open_named: 'a' keeps the content, 'w' truncates, 'r+' needs an existing file, 'x'/'w-' refuse one; an open handle is used as it is",
           "pandas: DataFrame construction, get_loc, to_numpy; read_csv/to_csv treated as a black box whose parsed frame is observed",
           "cyvcf2 0.34: VCF text -> Variant attributes (CHROM, ID = None for '.', genotypes; POS = the coordinate as a 32-bit integer, start = coordinate - 1, end = start + len(REF), as observed)", "numpy: ndarray.__copy__/__deepcopy__ copy the buffer; lexsort/argsort(mergesort) are stable",
           "group metadata attribute names (taxa_grp_*, vrnt_chrgrp_*) are listed in the harness, not derived from the source",
           "harness/translate/c16_kernel.py (ast -> Gen/C16_Kernel.v, fail closed on any statement shape it does not recognise) and the entry-point audit "
           "(every class / persistence method / helper of the anchored modules is classified as covered or skipped, at run time)",
           "scipy.interpolate.interp1d (only its y values, kind and fill value are observed)"]
ASSUMPTIONS = ["labels are str objects of unicode scalar values (no lone surrogates); label arrays are 1-D object arrays as the setters require",
               "hyper-parameter dictionaries are one level deep for HDF5 (members: arrays, python numbers, str, bytes, None); for copies they may hold lists and one further dictionary (checked by the predicate)", "VCF records carry diploid GT calls with integer CHROM",
               "data-frame cases avoid NaN/inf and duplicated labels; CSV cases avoid labels that pandas would re-type (numeric, empty, NA-like)"]

import boot
BUILD = os.path.join(boot.VERIF, "build", "C16")

# ------------------------------------------------------------------------------------------------ values
# JSON value forms (both for specs and for observed attributes):
#   None
#   {"t": "i8|i32|i64|b|f64", "sh": [...], "d": [ints | hex floats]}      numpy array / numpy scalar (sh == [])
#   {"t": "str", "d": [str,...]}                                              1-D object array of str
#   {"t": "bytes", "d": [[byte,...],...]}                                     1-D object array of bytes
#   {"t": "obj", "d": [repr,...]}                                             1-D object array of something else
#   {"t": "int", "v": n}  {"t": "float", "v": hex}  {"t": "s", "v": str}  {"t": "by", "v": [bytes]}    python scalars
#   {"t": "dict", "v": {key: value}}
#   {"t": "list", "d": [hex floats]}                                          python list of floats (a mutable hyper-parameter value)
NUMT = {"i8": "int8", "i32": "int32", "i64": "int64", "b": "bool", "f64": "float64"}
TNUM = {v: k for k, v in NUMT.items()}

def fbits(x):
    return struct.unpack(">Q", struct.pack(">d", float(x)))[0]
def fhex(x): return float(x).hex()

def mk(v):
    """JSON value -> python/numpy value"""
    if v is None: return None
    t = v["t"]
    if t in NUMT:
        d = [float.fromhex(x) for x in v["d"]] if t == "f64" else v["d"]
        a = numpy.array(d, dtype=NUMT[t]).reshape(v["sh"])
        return a
    if t == "str": return numpy.array(v["d"], dtype=object) if v["d"] else numpy.empty(0, dtype=object)
    if t == "int": return int(v["v"])
    if t == "float": return float.fromhex(v["v"])
    if t == "s": return v["v"]
    if t == "by": return bytes(v["v"])
    if t == "dict": return {k: mk(x) for k, x in v["v"].items()}
    if t == "list": return [float.fromhex(x) for x in v["d"]]
    raise ValueError(t)

def ob(x):
    """python/numpy value -> JSON value (the observable state)"""
    if x is None: return None
    if isinstance(x, (bool, numpy.bool_)) and not isinstance(x, numpy.ndarray):
        return {"t": "b", "sh": [], "d": [int(bool(x))]} if isinstance(x, numpy.bool_) else {"t": "pybool", "v": bool(x)}
    if isinstance(x, numpy.ndarray) or isinstance(x, numpy.generic):
        a = numpy.asarray(x)
        dt = str(a.dtype)
        if dt in TNUM:
            t = TNUM[dt]
            flat = a.reshape(-1).tolist() if a.size else []
            if t == "f64": flat = [fhex(y) for y in flat]
            elif t == "b": flat = [int(y) for y in flat]
            out = {"t": t, "sh": list(a.shape), "d": flat}
            if isinstance(x, numpy.generic): out["sc"] = 1          # numpy scalar rather than 0-d array (not distinguished by eq)
            return out
        if a.dtype == object and a.ndim == 1:
            items = a.tolist()
            if all(isinstance(s, str) for s in items): return {"t": "str", "d": items}
            if all(isinstance(s, bytes) for s in items): return {"t": "bytes", "d": [list(s) for s in items]}
            return {"t": "obj", "d": [repr(s) for s in items]}
        return {"t": "other", "v": "%s%s" % (dt, list(a.shape)), "d": repr(a.tolist())[:200]}
    if isinstance(x, int): return {"t": "int", "v": int(x)}
    if isinstance(x, float): return {"t": "float", "v": fhex(x)}
    if isinstance(x, str): return {"t": "s", "v": x}
    if isinstance(x, bytes): return {"t": "by", "v": list(x)}
    if isinstance(x, dict): return {"t": "dict", "v": {str(k): ob(v) for k, v in x.items()}}
    if isinstance(x, list) and all(isinstance(y, float) for y in x): return {"t": "list", "d": [fhex(y) for y in x]}
    return {"t": "other", "v": type(x).__name__, "d": repr(x)[:200]}

def veq(a, b):
    """observable equality of two JSON values: same None-ness, kind, dtype, shape, bit-identical data"""
    if a is None or b is None: return a is None and b is None
    if a["t"] != b["t"]:
        # integer arrays of different width with the same shape and values are observably equal (== elementwise)
        if a["t"] in INTS and b["t"] in INTS: return a["sh"] == b["sh"] and a["d"] == b["d"]
        # a python int and a numpy integer scalar of the same value are observably equal; same for floats
        ka, kb = _scalar(a), _scalar(b)
        return ka is not None and ka == kb
    if a["t"] == "dict":
        return set(a["v"]) == set(b["v"]) and all(veq(a["v"][k], b["v"][k]) for k in a["v"])
    ka = {k: v for k, v in a.items() if k != "sc"}; kb = {k: v for k, v in b.items() if k != "sc"}
    return ka == kb
INTS = ("i8", "i32", "i64")
def _scalar(v):
    if v["t"] == "int": return ("i", v["v"])
    if v["t"] in ("i8", "i32", "i64") and v["sh"] == []: return ("i", v["d"][0])
    if v["t"] == "float": return ("f", fbits(float.fromhex(v["v"])))
    if v["t"] == "f64" and v["sh"] == []: return ("f", fbits(float.fromhex(v["d"][0])))
    if v["t"] == "s": return ("s", v["v"])
    return None

def oeq(a, b, skip=()):
    """field-wise comparison of two observed objects -> list of differing fields"""
    bad = []
    for k in sorted(set(a) | set(b)):
        if k in skip: continue
        if k not in a or k not in b or not veq(a[k], b[k]): bad.append(k)
    return bad

# ------------------------------------------------------------------------------------------------ classes
TAXA_META = ["taxa_grp_name", "taxa_grp_stix", "taxa_grp_spix", "taxa_grp_len"]
VRNT_META = ["vrnt_chrgrp_name", "vrnt_chrgrp_stix", "vrnt_chrgrp_spix", "vrnt_chrgrp_len"]
VRNT = ["vrnt_chrgrp", "vrnt_phypos", "vrnt_name", "vrnt_genpos", "vrnt_xoprob", "vrnt_hapgrp", "vrnt_hapalt", "vrnt_hapref", "vrnt_mask"]
# key -> (module, class name, constructor fields, metadata fields set after construction, extra observed attributes)
CLS = {
    "DM":    ("pybrops.core.mat.DenseMatrix", "DenseMatrix", ["mat"], [], []),
    "TM":    ("pybrops.core.mat.DenseTaxaMatrix", "DenseTaxaMatrix", ["mat", "taxa", "taxa_grp"], TAXA_META, []),
    "VrM":   ("pybrops.core.mat.DenseVariantMatrix", "DenseVariantMatrix", ["mat"] + VRNT, VRNT_META, []),
    "GM":    ("pybrops.popgen.gmat.DenseGenotypeMatrix", "DenseGenotypeMatrix", ["mat", "taxa", "taxa_grp"] + VRNT + ["ploidy"], TAXA_META + VRNT_META, []),
    "PGM":   ("pybrops.popgen.gmat.DensePhasedGenotypeMatrix", "DensePhasedGenotypeMatrix", ["mat", "taxa", "taxa_grp"] + VRNT, TAXA_META + VRNT_META, ["ploidy"]),
    "BV":    ("pybrops.popgen.bvmat.DenseBreedingValueMatrix", "DenseBreedingValueMatrix", ["mat", "location", "scale", "taxa", "taxa_grp", "trait"], TAXA_META, []),
    "CM":    ("pybrops.popgen.cmat.DenseMolecularCoancestryMatrix", "DenseMolecularCoancestryMatrix", ["mat", "taxa", "taxa_grp"], TAXA_META, []),
    "STT":   ("pybrops.core.mat.DenseSquareTaxaTraitMatrix", "DenseSquareTaxaTraitMatrix", ["mat", "taxa", "taxa_grp", "trait"], TAXA_META, []),
    "VM":    ("pybrops.model.vmat.DenseTwoWayDHAdditiveGeneticVarianceMatrix", "DenseTwoWayDHAdditiveGeneticVarianceMatrix", ["mat", "taxa", "taxa_grp", "trait"], TAXA_META, []),
    "ALGM":  ("pybrops.model.gmod.DenseAdditiveLinearGenomicModel", "DenseAdditiveLinearGenomicModel", ["beta", "u_misc", "u_a", "trait", "model_name", "hyperparams"], [], []),
    "ADLGM": ("pybrops.model.gmod.DenseAdditiveDominanceLinearGenomicModel", "DenseAdditiveDominanceLinearGenomicModel", ["beta", "u_misc", "u_a", "u_d", "trait", "model_name", "hyperparams"], [], []),
    "GE":    ("pybrops.breed.prot.pt.G_E_Phenotyping", "G_E_Phenotyping", ["nenv", "nrep", "var_env", "var_rep", "var_err"], [], []),
    "SGMAP": ("pybrops.popgen.gmap.StandardGeneticMap", "StandardGeneticMap", ["vrnt_chrgrp", "vrnt_phypos", "vrnt_genpos"], VRNT_META, ["spline_kind", "spline_fill_value"]),
    "EGMAP": ("pybrops.popgen.gmap.ExtendedGeneticMap", "ExtendedGeneticMap", ["vrnt_chrgrp", "vrnt_phypos", "vrnt_stop", "vrnt_genpos", "vrnt_name", "vrnt_fncode"], VRNT_META, ["spline_kind", "spline_fill_value"]),
}
H5_CLASSES = ["DM", "TM", "VrM", "GM", "PGM", "BV", "CM", "STT", "VM", "ALGM", "ADLGM", "GE"]

def klass(key):
    import importlib
    m, c = CLS[key][0], CLS[key][1]
    return getattr(importlib.import_module(m), c)

def attrs(key):
    return CLS[key][2] + CLS[key][3] + CLS[key][4]

_GPMOD = {}
def gpmod_for(ntrait):
    """a fixed genomic model bound to G_E_Phenotyping objects (not persisted by to_hdf5)"""
    ALGM = klass("ALGM")
    return ALGM(beta=numpy.zeros((1, ntrait)), u_misc=None, u_a=numpy.ones((2, ntrait)), trait=None, model_name="gp", hyperparams=None)

def build(key, spec):
    """object spec (field -> JSON value, plus optional "_group": [axes], "_ntrait") -> instance"""
    cls = klass(key)
    kw = {f: mk(spec.get(f)) for f in CLS[key][2] if f in spec}
    if key == "GE":
        kw["gpmod"] = gpmod_for(spec["_ntrait"])
        for f in ("var_env", "var_rep", "var_err"): kw.setdefault(f, None)
    if key in ("SGMAP", "EGMAP"):
        kw["auto_group"] = bool(spec.get("_auto_group", True)); kw["auto_build_spline"] = bool(spec.get("_spline", True))
        if spec.get("_kind"): kw["spline_kind"] = spec["_kind"]
    o = cls(**kw)
    if key in ("SGMAP", "EGMAP") and spec.get("_kind") and spec.get("_kind_build") and spec.get("_spline", True):
        o.build_spline(spec["_kind"], "extrapolate")          # the library's own route to a non-default interpolation kind
    for f in CLS[key][3]:
        if f in spec: setattr(o, f, mk(spec[f]))
    for ax in spec.get("_group", []):
        if ax == "taxa": o.group_taxa() if hasattr(o, "group_taxa") else o.group()
        elif ax == "vrnt": o.group_vrnt()
    return o

def observe(key, o):
    return {f: ob(getattr(o, f)) for f in attrs(key)}

def _reuse(key, o, spec):
    """lifecycle: the SAME object again, brought to the state `spec` through its property setters (None when a setter refuses,
    e.g. a read-only attribute or a length check against the current matrix: the caller then builds a fresh object)"""
    try:
        for f in CLS[key][2]:
            if f in spec and f != "ploidy": setattr(o, f, mk(spec.get(f)))
        for f in CLS[key][3]: setattr(o, f, mk(spec[f]) if f in spec else None)
        for ax in spec.get("_group", []):
            if ax == "taxa": o.group_taxa() if hasattr(o, "group_taxa") else o.group()
            elif ax == "vrnt": o.group_vrnt()
        return o
    except Exception:
        return None

# ------------------------------------------------------------------------------------------------ HDF5
def h5dump(fn):
    import h5py
    out = {}
    with h5py.File(fn, "r") as f:
        def v(name, obj):
            if isinstance(obj, h5py.Dataset):
                val = obj[()]
                if obj.dtype == object or h5py.check_string_dtype(obj.dtype) is not None:
                    if obj.shape == ():          # "by": UTF-8 character set (written from a str); "bya": ASCII (written from bytes)
                        out[name] = {"t": "by" if h5py.check_string_dtype(obj.dtype).encoding == "utf-8" else "bya", "v": list(val)}
                    else: out[name] = {"t": "bytes", "d": [list(s) for s in val.tolist()]}
                else:
                    out[name] = ob(numpy.asarray(val)); out[name].pop("sc", None)
            else:
                out[name] = "G"
        f.visititems(v)
    return out

def _tmp(case, suffix):
    os.makedirs(BUILD, exist_ok=True)
    h = hashlib.sha256(json.dumps(case, sort_keys=True, default=str).encode()).hexdigest()[:16]
    return os.path.join(BUILD, "t_%s_%d%s" % (h, os.getpid(), suffix))

def _exc(e):
    return {"exc": type(e).__name__, "msg": str(e)[:200]}

def run_h5(case):
    import h5py
    key = case["cls"]; cls = klass(key)
    fn = _tmp(case, ".h5")
    if os.path.exists(fn): os.remove(fn)
    grp = case["group"]
    out = {"orig": [], "writes": [], "reads": [], "dumps": [], "routes": []}
    routes = case.get("routes") or ["new"] * len(case["objs"])
    prev = None
    try:
        for spec, ow, route in zip(case["objs"], case["overwrite"], routes):
            # where the object written comes from: the constructor, copy.copy / copy.deepcopy of a constructed object, or the object
            # of the previous step updated in place through its setters ("a result depends on the state at the call")
            o, used = None, "new"
            if route == "setattr" and prev is not None and key != "GE":
                o = _reuse(key, prev, spec)
                if o is not None: used = "setattr"
            if o is None:
                o = build(key, spec)
                if route == "copy": o = _copy.copy(o); used = "copy"
                elif route == "deepcopy": o = _copy.deepcopy(o); used = "deepcopy"
            prev = o
            out["routes"].append(used)
            out["orig"].append(observe(key, o))
            try:
                if case.get("handle"):
                    with h5py.File(fn, "a") as h5: o.to_hdf5(h5, grp, ow)
                else:
                    o.to_hdf5(fn, grp, ow)
                out["writes"].append(None)
            except Exception as e:
                out["writes"].append(_exc(e))
                import gc; gc.collect()
            out["dumps"].append(h5dump(fn) if os.path.exists(fn) else None)
            try:
                kw = {"gpmod": gpmod_for(spec["_ntrait"])} if key == "GE" else {}
                if case.get("handle"):
                    with h5py.File(fn, "r") as h5: r = cls.from_hdf5(h5, grp, **kw)
                else:
                    r = cls.from_hdf5(fn, grp, **kw)
                out["reads"].append(observe(key, r))
            except Exception as e:
                out["reads"].append(_exc(e))
                import gc; gc.collect()
    finally:
        if os.path.exists(fn): os.remove(fn)
    return out

def run_impl(case):
    with warnings.catch_warnings():
        warnings.simplefilter("ignore")
        return {"h5": run_h5}[case["kind"]](case)

# ------------------------------------------------------------------------------------------------ Coq emission
Z = E.z
def zstr(s): return "[" + "; ".join(str(ord(c)) for c in s) + "]%Z" if s else "[]"
def zbytes(b): return "[" + "; ".join(str(int(c)) for c in b) + "]%Z" if b else "[]"
def zl(xs): return "[" + "; ".join(("(%d)" % x) if x < 0 else str(x) for x in xs) + "]%Z" if xs else "[]"
DT = {"i8": "TI8", "i32": "TI32", "i64": "TI64", "b": "TBool", "f64": "TF64"}
def _data(v):
    return [fbits(float.fromhex(x)) for x in v["d"]] if v["t"] == "f64" else [int(x) for x in v["d"]]
def e_sval(v):
    t = v["t"]
    if t in DT: return "(VArr %s %s %s)" % (DT[t], zl(v["sh"]), zl(_data(v)))
    if t == "str": return "(VStrs %s)" % E.lst(v["d"], zstr)
    if t == "bytes": return "(VBytess %s)" % E.lst(v["d"], zbytes)
    if t == "int": return "(VInt %s)" % Z(v["v"])
    if t == "float": return "(VFloat %s)" % Z(fbits(float.fromhex(v["v"])))
    if t == "s": return "(VStr %s)" % zstr(v["v"])
    if t == "by": return "(VBytes %s)" % zbytes(v["v"])
    if t == "list": return "(VArr TF64 %s %s)" % (zl([len(v["d"])]), zl([fbits(float.fromhex(x)) for x in v["d"]]))     # copy cases only
    raise ValueError("value of kind %r has no model counterpart" % t)
def e_oval(v):
    if v["t"] == "dict":
        return "(OD %s)" % E.lst(sorted(v["v"].items()), lambda kv: "(%s, %s)" % (zstr(kv[0]), E.opt(kv[1], e_sval)))
    return "(OS %s)" % e_sval(v)
def e_obj(o, order):
    return E.lst([k for k in order if k in o], lambda k: "(%s, %s)" % (E.s(k), E.opt(o[k], e_oval)))
def e_dset(v):
    t = v["t"]
    if t in DT: return "(DArr %s %s %s)" % (DT[t], zl(v["sh"]), zl(_data(v)))
    if t == "bytes": return "(DStrs %s)" % E.lst(v["d"], zbytes)
    if t == "by": return "(DStr %s)" % zbytes(v["v"])
    if t == "bya": return "(DBytes %s)" % zbytes(v["v"])
    raise ValueError("dataset of kind %r has no model counterpart" % t)
def e_dump(d):
    return E.lst(sorted(d.items()), lambda kv: "(%s, %s)" % (zstr(kv[0]), "None" if kv[1] == "G" else "(Some %s)" % e_dset(kv[1])))

def emit_h5(case, out):
    key = case["cls"]; order = attrs(key)
    nt = case["objs"][0].get("_ntrait", 0)
    steps = E.lst(list(zip(out["orig"], case["overwrite"])), lambda p: "(%s, %s)" % (e_obj(p[0], order), E.b(p[1])))
    def so(i):
        w = out["writes"][i] is not None
        d = out["dumps"][i]
        r = out["reads"][i]
        return "(%s, %s, %s)" % (E.b(w), "None" if d is None else "(Some %s)" % e_dump(d),
                                 "None" if "exc" in r else "(Some %s)" % e_obj(r, order))
    outs = E.lst(range(len(out["orig"])), so)
    g = case["group"]
    return "agree_h5 VCur spec_%s %s %s [] %s %s" % (key, Z(nt), "None" if g is None else "(Some %s)" % zstr(g), steps, outs)

class _Heap:
    def __init__(self): self.cells = []
    def add(self, c):
        self.cells.append(c); return "(HRef %d%%nat)" % (len(self.cells) - 1)
    def hv(self, v, opaque=False):
        if v is None: return "HNone"
        t = v["t"]
        if t == "dict":
            items = []
            for k, x in sorted(v["v"].items()):
                if opaque and x is not None: items.append("(%s, %s)" % (zstr(k), self.add("(COpaque 1 %s)" % zl(_data(x)))))
                elif x is not None and x["t"] == "list":      # a python list: one mutable cell that both copy.copy and copy.deepcopy duplicate
                    items.append("(%s, %s)" % (zstr(k), self.add("(COpaque 3 %s)" % zl([fbits(float.fromhex(y)) for y in x["d"]]))))
                else: items.append("(%s, %s)" % (zstr(k), self.hv(x)))
            return self.add("(CDict %s)" % E.lst(items, str))
        if t in ("int", "float", "s", "by") or (t in DT and v.get("sc")): return "(HImm %s)" % e_sval(v)
        return self.add("(CArr %s)" % e_sval(v))
    def render(self): return E.lst(self.cells, str)

def _nested_dict(v):
    return v is not None and v.get("t") == "dict" and any(x is not None and x.get("t") == "dict" for x in v["v"].values())

def emit_copy(case, out):
    key = case["cls"]; H = _Heap()
    # the heap model observes containers one level deep: a dictionary inside a hyper-parameter dictionary is checked by the predicate only
    if any(_nested_dict(v) for v in out["before"].values()): return None
    names = attrs(key)
    fields = []
    for a in names:
        fields.append("(%s, %s)" % (E.s(a), H.hv(out["before"][a])))
    if key in ("SGMAP", "EGMAP"): fields.append("(%s, %s)" % (E.s("spline"), H.hv(out["before"]["spline"], opaque=True)))
    if key == "GE":
        g = out["gpmod_obs"]
        gf = E.lst(attrs("ALGM"), lambda a: "(%s, %s)" % (E.s(a), H.hv(g[a])))
        fields.append("(%s, %s)" % (E.s("gpmod"), H.add("(CObj %s %s)" % (E.s("ALGM"), gf))))
        fields.append("(%s, %s)" % (E.s("rng"), H.add("(COpaque 2 [])")))
    derived = {"PGM": {"ploidy"}}.get(key, set())          # computed from mat, not an attribute that is copied
    obs_names = [a for a in out["copy"] if "." not in a and a not in derived]
    copy_obs = E.lst(obs_names, lambda a: "(%s, %s)" % (E.s(a), E.opt(out["copy"][a], e_oval)))
    def path(n):
        if "." not in n: return (n, "", "")
        a, k = n.split(".", 1)
        return (a, "", k) if a == "gpmod" else (a, k, "")
    def e_path(n):
        a, k, kf = path(n); return "(%s, %s, %s)" % (E.s(a), zstr(k), E.s(kf))
    shares = E.lst([n for n, v in out["shares"].items() if v is not None and n.count(".") <= 1],
                   lambda n: "(%s, %s, %s, %s)" % (E.s(path(n)[0]), zstr(path(n)[1]), E.s(path(n)[2]), E.b(out["shares"][n])))
    changed = E.lst([n for n in out["before"] if not veq(out["before"][n], out["after"].get(n))], E.s)
    watch = E.lst([n for n in out["before"] if n not in derived], lambda n: "(%s, %s)" % (E.s(n), e_path(n)))
    deep = case["how"] in ("deepcopy", "m_deepcopy")
    return "agree_copy all_specs spec_%s %s %s %s %s %s %s %s %s" % (key, E.b(deep), H.render(), E.lst(fields, str), copy_obs, shares, changed, watch,
                                                                      E.lst(sorted(SHARED_ON_PURPOSE.get(key, [])), E.s))

# ---- VCF
def emit_vcf(case, out):
    # every vcf case is evaluated in Coq (equal coordinates too: the model sorts stably, as numpy.lexsort does), from the TEXT of the
    # file: CHROM POS ID REF ALT and the calls of each line
    o = out["obj"]; n = len(case["samples"]); p = len(case["records"])
    phased = case["cls"] == "PGM"
    lines = E.lst(case["records"], lambda r: "(mkL %s %s %s %s %s %s)" % (Z(r["chrom"]), Z(r["pos"]), "None" if r["id"] == "." else "(Some %s)" % zstr(r["id"]),
                                                                    zstr(r["ref"]), zstr(r["alt"]), E.lst(r["gt"], lambda g: "(%s, %s)" % (Z(g[0]), Z(g[1])))))
    d = o["mat"]["d"]; sh = o["mat"]["sh"]
    if len(sh) != (3 if phased else 2): return "false"
    if phased: mat = [[[d[(ph * sh[1] + i) * sh[2] + j] for j in range(sh[2])] for i in range(sh[1])] for ph in range(sh[0])]
    else: mat = [[[d[i * sh[1] + j] for j in range(sh[1])] for i in range(sh[0])]]
    meta = "None"
    if all(o[k] is not None for k in VRNT_META):
        meta = "(Some (%s, %s, %s, %s))" % tuple(zl(o[k]["d"]) for k in VRNT_META)
    elif any(o[k] is not None for k in VRNT_META): return "false"
    for k in ("taxa", "vrnt_chrgrp", "vrnt_phypos", "vrnt_name"):
        if o[k] is None: return "false"
    pl = _scalar(o["ploidy"])
    hap_none = o.get("vrnt_hapref") is None and o.get("vrnt_hapalt") is None
    return "agree_vcf_text %s %s %s %s %s %s %s %s %s %s %s %s" % (E.b(phased), E.lst(case["samples"], zstr), lines, E.b(case["auto_group"]),
        E.lst3(mat, Z), E.lst(o["taxa"]["d"], zstr), zl(o["vrnt_chrgrp"]["d"]), zl(o["vrnt_phypos"]["d"]), E.lst(o["vrnt_name"]["d"], zstr), meta,
        Z(pl[1] if pl else -1), E.b(hap_none))

# ---- data frames
def e_f(h): return E.fhex(float.fromhex(h))
def e_cell(c):
    if c is None: return "CNone"
    if "i" in c: return "(CI %s)" % Z(c["i"])
    if "f" in c: return "(CF %s)" % e_f(c["f"])
    if "s" in c: return "(CS %s)" % zstr(c["s"])
    if "b" in c: return "(CB %s)" % E.b(c["b"])
    raise ValueError("cell %r" % (c,))
def e_tbl(t):
    return E.lst(list(zip(t["cols"], t["data"])), lambda cd: "(%s, %s)" % (e_cell(cd[0]), E.lst(cd[1], e_cell)))
def rows2(v):
    n, m = v["sh"]; d = v["d"]
    return [[d[i * m + j] for j in range(m)] for i in range(n)]
def rows3(v):
    a, b, c = v["sh"]; d = v["d"]
    return [[[d[(i * b + j) * c + k] for k in range(c)] for j in range(b)] for i in range(a)]
def e_ostrs(v): return "None" if v is None else "(Some %s)" % E.lst(v["d"], zstr)
def e_ozl(v): return "None" if v is None else "(Some %s)" % zl(v["d"])
def _nan_free(v):
    return v is None or v["t"] != "f64" or all(x == x for x in _fl(v))
def _labels_as_cells(v):
    """observed label array (str, or the repr of ints) -> list of cells"""
    if v is None: return None
    if v["t"] == "str": return [{"s": x} for x in v["d"]]
    if v["t"] == "obj":
        try: return [{"i": int(x)} for x in v["d"]]
        except ValueError: return None
    return None

def emit_df(case, out):
    key = case["cls"]; o = out["orig"]; b = out["back"]
    df = out["df"]; dfr = out.get("df_read", out.get("df"))
    if not all(_nan_free(v) for v in o.values() if isinstance(v, dict)): return None
    if key in ("SGMAP", "EGMAP"):
        ext = key == "EGMAP"
        def e_g(v):
            return "(mkG %s %s %s %s %s %s)" % (zl(v["vrnt_chrgrp"]["d"]), zl(v["vrnt_phypos"]["d"]), e_ozl(v.get("vrnt_stop")) if ext else "None",
                                                E.lst(v["vrnt_genpos"]["d"], e_f), e_ostrs(v.get("vrnt_name")) if ext else "None", e_ostrs(v.get("vrnt_fncode")) if ext else "None")
        u = "UcM" if case["opts"].get("units", "cM") in ("cM", "centiMorgans") else "UM"
        if "exc" in b: back = "None"; kind_ok = "true"
        else:
            meta = "None"
            if all(b[k] is not None for k in VRNT_META): meta = "(Some (%s, %s, %s, %s))" % tuple(zl(b[k]["d"]) for k in VRNT_META)
            sp = "None" if b.get("spline") is None else "(Some %s)" % E.lst(sorted(b["spline"]["v"].items(), key=lambda kv: int(kv[0])),
                                                                             lambda kv: "(%s, %s)" % (Z(int(kv[0])), E.lst(kv[1]["d"], e_f)))
            back = "(Some (%s, %s, %s))" % (e_g(b), meta, sp)
            # interpolation settings: what the reader's constructor was given (the source's, or nothing with default arguments) vs what it kept
            given = ({"t": "s", "v": "linear"}, {"t": "s", "v": "extrapolate"}) if case["opts"].get("defaults") else (o["spline_kind"], o["spline_fill_value"])
            if all(v is not None and v["t"] == "s" for v in given + (b["spline_kind"], b["spline_fill_value"])):
                kind_ok = "agree_kind %s %s %s %s %s %s" % (E.b(ext), zstr(given[0]["v"]), zstr(given[1]["v"]),
                                                            E.b(True if case["opts"].get("defaults") else case["obj"].get("_spline", True)),
                                                            zstr(b["spline_kind"]["v"]), zstr(b["spline_fill_value"]["v"]))
            else: kind_ok = "false"
        ag, spl = E.b(case["obj"].get("_auto_group", True)), E.b(case["obj"].get("_spline", True))
        if case["opts"].get("defaults"):
            return "andb (agree_gmap_default %s %s %s %s %s) (%s)" % (E.b(ext), e_g(o), e_tbl(df), e_tbl(dfr), back, kind_ok)
        if case["via"] in ("egmap", "egmap_file"):
            return "andb (agree_egmap %s %s %s %s %s) (%s)" % (ag, spl, E.b(case["via"] == "egmap"), e_tbl(dfr), back, kind_ok)
        return "andb (agree_gmap %s %s %s %s %s %s %s %s) (%s)" % (E.b(ext), u, ag, spl, e_g(o), e_tbl(df), e_tbl(dfr), back, kind_ok)
    if key == "CM":
        def e_m(v): return "(mkCM %s %s %s)" % (E.lst2(rows2(v["mat"]), e_f), e_ostrs(v["taxa"]), e_ozl(v["taxa_grp"]))
        if "exc" not in b and b["taxa"] is not None and b["taxa"]["t"] != "str": return None      # integer labels parsed from a CSV: predicate only
        grp_col = out["opts"]["to"]["taxa_grp_col"] is not None
        return "agree_cm %s %s %s %s %s" % (E.b(grp_col), e_m(o), e_tbl(df), e_tbl(dfr), "None" if "exc" in b else "(Some %s)" % e_m(b))
    if key == "VM":
        def e_m(v): return "(mkVM %s %s %s %s)" % (E.lst3(rows3(v["mat"]), e_f), e_ostrs(v["taxa"]), e_ozl(v["taxa_grp"]), e_ostrs(v["trait"]))
        grp = out["opts"]["to"]["female_grp_col"] is not None
        return "agree_vm %s %s %s %s %s" % (E.b(grp), e_m(o), e_tbl(df), e_tbl(dfr), "None" if "exc" in b else "(Some %s)" % e_m(b))
    if key == "BV":
        def e_m(v): return "(mkBV %s %s %s %s %s %s)" % (E.lst2(rows2(v["mat"]), e_f), E.lst(v["location"]["d"], e_f), E.lst(v["scale"]["d"], e_f),
                                                         e_ostrs(v["taxa"]), e_ozl(v["taxa_grp"]), e_ostrs(v["trait"]))
        if "exc" in b: return "agree_bv %s %s %s %s None []" % (E.b(case["opts"].get("unscale", False)), e_m(o), e_tbl(df), e_tbl(dfr))
        bt = _labels_as_cells(b["trait"])
        if bt is None or not all(_nan_free(v) for v in b.values() if isinstance(v, dict)): return None
        bb = dict(b); bb["trait"] = None
        return "agree_bv %s %s %s %s (Some %s) %s" % (E.b(case["opts"].get("unscale", False)), e_m(o), e_tbl(df), e_tbl(dfr), e_m(bb), E.lst(bt, e_cell))
    if key in ("ALGM", "ADLGM"):
        blocks = ["beta", "u_misc", "u_a"] + (["u_d"] if key == "ADLGM" else [])
        t = o["beta"]["sh"][1]
        if "exc" in b: back = "None"; bt = []
        else:
            bt = _labels_as_cells(b["trait"])
            if bt is None: return None
            back = "(Some %s)" % E.lst(blocks, lambda k: E.lst2(rows2(b[k]), e_f))
        return "agree_gmod %s %d%%nat %s %s %s %s %s" % (e_ostrs(o["trait"]), t, E.lst(blocks, lambda k: E.lst2(rows2(o[k]), e_f)),
                                                      E.lst(blocks, lambda k: e_tbl(df[k])), E.lst(blocks, lambda k: e_tbl(dfr[k])), back, E.lst(bt, e_cell))
    return None

_EMIT = {"h5": emit_h5, "copy": emit_copy, "vcf": emit_vcf, "df": emit_df}
def emit_case(case, out):
    if "exc" in out: return "false"
    f = _EMIT.get(case["kind"])
    return f(case, out) if f else None

# ------------------------------------------------------------------------------------------------ entry-point audit (run time, fail closed)
# Every class defined in an anchored module and every persistence / copy method visible on it (own or inherited) must be driven by
# a case kind or be listed in SKIPPED with a reason; a class, method or helper function that appears in the source and is not
# classified here makes translate() raise, i.e. the check fails until it is classified.
import re as _re
_IO_RE = _re.compile(r"^(to_|from_|copy$|deepcopy$|__copy__$|__deepcopy__$)")
_COPY4 = ["__copy__", "__deepcopy__", "copy", "deepcopy"]
_PD = ["to_pandas", "from_pandas", "to_csv", "from_csv"]; _PDD = ["to_pandas_dict", "from_pandas_dict", "to_csv_dict", "from_csv_dict"]; _H5 = ["to_hdf5", "from_hdf5"]          # case kinds h5 (one location) and mh5 (several objects of different classes in one file)
COVERED = {        # python class -> {method: case kind that calls it}
    "DenseMatrix": {**{m: "copy" for m in _COPY4}, **{m: "h5" for m in _H5}},
    "DenseTaxaMatrix": {**{m: "copy" for m in _COPY4}, **{m: "h5" for m in _H5}},
    "DenseVariantMatrix": {**{m: "copy" for m in _COPY4}, **{m: "h5" for m in _H5}},
    "DenseGenotypeMatrix": {**{m: "copy" for m in _COPY4}, **{m: "h5" for m in _H5}, "from_vcf": "vcf"},
    "DensePhasedGenotypeMatrix": {**{m: "copy" for m in _COPY4}, **{m: "h5" for m in _H5}, "from_vcf": "vcf"},
    "DenseBreedingValueMatrix": {**{m: "copy" for m in _COPY4}, **{m: "h5" for m in _H5}, **{m: "df" for m in _PD}},
    "DenseCoancestryMatrix": {**{m: "copy (DenseMolecularCoancestryMatrix)" for m in _COPY4}, **{m: "h5 (DenseMolecularCoancestryMatrix)" for m in _H5}, **{m: "df (DenseMolecularCoancestryMatrix)" for m in _PD}},
    "StandardGeneticMap": {**{m: "copy" for m in _COPY4}, **{m: "df" for m in _PD}},
    "ExtendedGeneticMap": {**{m: "copy" for m in _COPY4}, **{m: "df" for m in _PD}, "to_egmap": "df via egmap", "from_egmap": "df via egmap / egmap_file"},
    "DenseAdditiveLinearGenomicModel": {**{m: "copy" for m in _COPY4}, **{m: "h5" for m in _H5}, **{m: "df" for m in _PDD}},
    "DenseAdditiveDominanceLinearGenomicModel": {**{m: "copy" for m in _COPY4}, **{m: "h5" for m in _H5}, **{m: "df" for m in _PDD}},
    "DenseTwoWayDHAdditiveGeneticVarianceMatrix": {**{m: "copy" for m in _COPY4}, **{m: "h5" for m in _H5}, **{m: "df" for m in _PD}},
    "DenseSquareTaxaTraitMatrix": {**{m: "copy" for m in _COPY4}, **{m: "h5" for m in _H5}, **{m: "df (predicate only)" for m in _PD}},
    "G_E_Phenotyping": {**{m: "copy" for m in _COPY4}, **{m: "h5" for m in _H5}},
    "Copyable": {m: "abstract interface; every implementation above is driven by the copy cases" for m in _COPY4},
}
SKIPPED = {
    ("DenseBreedingValueMatrix", "from_numpy"): "constructor-like factory that standardises raw values: not a persistence route (property C15)",
    ("DenseCoancestryMatrix", "from_gmat"): "abstract factory computing a coancestry matrix from genotypes (property C13)",
    ("DenseTwoWayDHAdditiveGeneticVarianceMatrix", "from_gmod"): "computes variances from a genomic model (property C12), not a persistence route",
    ("DenseTwoWayDHAdditiveGeneticVarianceMatrix", "from_algmod"): "computes variances from a genomic model (property C12), not a persistence route",
}
H5_FUNCS = {"h5py_File_write_dict": "wd, h5", "h5py_File_read_dict": "rd, h5 (genomic models)", "h5py_File_read_int": "rd, h5", "h5py_File_read_ndarray": "rd, h5",
            "h5py_File_read_ndarray_int": "rd", "h5py_File_read_ndarray_int8": "rd, h5", "h5py_File_read_ndarray_utf8": "rd, h5", "h5py_File_read_utf8": "rd, h5",
            "h5py_File_has_group": "rd", "h5py_File_is_readable": "rd", "h5py_File_is_writable": "rd"}
UNCOVERED_ARGS = {
    "DenseSquareTaxaTraitMatrix.from_pandas(trait_colnames = <positions>)": "refused with a TypeError by check_Sequence_all_type(trait_colnames, (str, NoneType)) although the annotation admits Integral (taxa / group / value columns by position are covered): an argument check, not a round-trip difference",  # parameters of covered methods that the generators leave at their defaults, with the reason
    "column-name parameters (taxa_col, vrnt_chrgrp_col, female_col, ...) and sep/header/index of the CSV writers": "renaming columns consistently on both sides does not change which array goes where; the egmap pair (tab separator, other names) is the one non-default combination the library itself uses and it is covered",
    "DenseCoancestryMatrix.to_pandas(taxa = <subset>)": "exports a sub-matrix by design: not a round trip",
    "spline / spline_fill_value arrays of the genetic-map readers": "fill_value other than 'extrapolate' changes interpolation outside the map only (property C11)",
}

def audit_entry_points():
    import importlib, inspect
    with open(os.path.join(boot.VERIF, "properties.jsonl")) as f:
        prop = [json.loads(l) for l in f if l.strip() and json.loads(l).get("id") == ID][0]
    problems = []; seen = 0
    for rel in prop["anchors"]["files"]:
        m = importlib.import_module(rel[:-3].replace("/", "."))
        for n, c in inspect.getmembers(m, inspect.isclass):
            if c.__module__ != m.__name__: continue
            if n not in COVERED: problems.append("class %s (%s) is not classified" % (n, rel)); continue
            for x in sorted(dir(c)):
                if _IO_RE.match(x) and callable(getattr(c, x)):
                    seen += 1
                    if x not in COVERED[n] and (n, x) not in SKIPPED: problems.append("%s.%s is neither covered nor skipped" % (n, x))
            for x in COVERED[n]:
                if not hasattr(c, x): problems.append("%s.%s is listed as covered but no longer exists" % (n, x))
        for n, g in inspect.getmembers(m, inspect.isfunction):
            if g.__module__ != m.__name__ or n.startswith("_") or n.startswith("check_"): continue
            seen += 1
            if n not in H5_FUNCS: problems.append("function %s (%s) is not classified" % (n, rel))
    # the harness drives exactly the classes it says it drives
    for k in CLS:
        pc = CLS[k][1]
        if pc not in COVERED and pc != "DenseMolecularCoancestryMatrix": problems.append("harness class %s not in COVERED" % pc)
    if problems: raise RuntimeError("entry-point audit: " + "; ".join(problems[:8]))
    return {"audit": "entry points", "classified": seen, "skipped": len(SKIPPED)}

# ------------------------------------------------------------------------------------------------ translator hook
def translate(repo, gen_dir):
    sys.path.insert(0, os.path.join(os.path.dirname(os.path.dirname(os.path.abspath(__file__))), "translate"))
    import c16_fields
    classes = [(k, klass(k), list(CLS[k][3])) for k in CLS]
    recs, path = c16_fields.generate(classes, gen_dir)
    # kernel expressions (delete conditions, field/group names, recursive call, decode condition, unit conversions, long-table
    # layout) regenerated from the source; fail closed
    from translate import c16_kernel
    kern = c16_kernel.translate(repo, gen_dir, [(k, klass(k)) for k in H5_CLASSES])
    return [{"table": "Gen/C16_Fields.v", "classes": len(recs),
             "written_keys": sum(len(r["written"]) for r in recs), "copied_attrs": sum(len(r["cp_ctor"]) + len(r["cp_post"]) for r in recs)},
            kern, audit_entry_points()]

# ------------------------------------------------------------------------------------------------ generators
LABELS = ["a", "B7", "ä", "ß", "日本", "😀x", "na/ïve", "", " sp ace", "Ω", "line-1", "Zz", "é", "x_y", "0", "t1"]
FLOATS = [0.0, -0.0, 1.0, -1.0, 0.5, 0.25, 2.0, 3.75, 0.1, 0.2, 0.30000000000000004, 1 / 3, 1e-300, 1e300, 123456.789, -7.25, 5e-324]
def g_f64(rng, shape, nonneg=False, special=True, tame=False):
    n = 1
    for s in shape: n *= s
    d = []
    for _ in range(n):
        k = rng.random()
        if k < 0.5: x = rng.randint(-512, 512) / 64
        elif k < 0.9: x = rng.choice(FLOATS[:-5] if tame else FLOATS)
        elif k < 0.95 and special: x = rng.choice([float("inf"), float("-inf"), float("nan")])
        else: x = rng.uniform(-10, 10)
        if nonneg:
            x = abs(x) if x == x and abs(x) != float("inf") else 1.5
        d.append(fhex(x))
    return {"t": "f64", "sh": list(shape), "d": d}
def g_int(rng, shape, lo, hi, t="i64"):
    n = 1
    for s in shape: n *= s
    return {"t": t, "sh": list(shape), "d": [rng.randint(lo, hi) for _ in range(n)]}
def g_str(rng, n):
    return {"t": "str", "d": [rng.choice(LABELS) if rng.random() < 0.8 else rng.choice(LABELS) + rng.choice(LABELS) for _ in range(n)]}
def g_ustr(rng, n):
    """n distinct labels"""
    pool = LABELS[:]; rng.shuffle(pool)
    out = pool[:n]
    while len(out) < n: out.append("L%d" % len(out))
    return {"t": "str", "d": out}
def opt(rng, mode, f):
    """mode: 'all' | 'none' | 'mix'"""
    if mode == "all" or (mode == "mix" and rng.random() < 0.5): return f()
    return None
def g_meta(rng, names):
    k = rng.randint(1, 3)
    return {m: g_int(rng, [k], 0, 9, rng.choice(["i64", "i64", "i32"])) for m in names}

def g_taxa_part(rng, o, n, mode, meta=True):
    o["taxa"] = opt(rng, mode, lambda: g_str(rng, n))
    o["taxa_grp"] = opt(rng, mode, lambda: g_int(rng, [n], 0, 3, rng.choice(["i64", "i64", "i32", "i8"])))
    if meta:
        k = rng.random()
        if o["taxa_grp"] is not None and k < 0.45: o.setdefault("_group", []).append("taxa")
        elif k < 0.6 or mode == "all": o.update(g_meta(rng, TAXA_META))
def g_vrnt_part(rng, o, p, mode):
    o["vrnt_chrgrp"] = opt(rng, mode, lambda: g_int(rng, [p], 1, 3))
    o["vrnt_phypos"] = opt(rng, mode, lambda: g_int(rng, [p], 1, 10 ** 9))
    if o["vrnt_phypos"] is not None and rng.random() < 0.15:
        o["vrnt_phypos"]["d"][rng.randrange(p)] = rng.choice([2 ** 53 + 1, 2 ** 62 + 3, 2 ** 31, 2 ** 63 - 1])
    o["vrnt_name"] = opt(rng, mode, lambda: g_str(rng, p))
    o["vrnt_genpos"] = opt(rng, mode, lambda: g_f64(rng, [p]))
    o["vrnt_xoprob"] = opt(rng, mode, lambda: g_f64(rng, [p]))
    o["vrnt_hapgrp"] = opt(rng, mode, lambda: g_int(rng, [p], 0, 5))
    o["vrnt_hapalt"] = opt(rng, mode, lambda: {"t": "str", "d": [rng.choice("ACGT") for _ in range(p)]})
    o["vrnt_hapref"] = opt(rng, mode, lambda: {"t": "str", "d": [rng.choice(["A", "C", "G", "T", "AT", "-"]) for _ in range(p)]})
    o["vrnt_mask"] = opt(rng, mode, lambda: g_int(rng, [p], 0, 1, "b"))
    k = rng.random()
    if o["vrnt_chrgrp"] is not None and o["vrnt_phypos"] is not None and k < 0.45: o.setdefault("_group", []).append("vrnt")
    elif k < 0.6 or mode == "all": o.update(g_meta(rng, VRNT_META))

HKEYS = ["a", "lr", "é", "kind", "n_iter", "λ"]
def g_hyper(rng, mode):
    if mode == "none" or (mode == "mix" and rng.random() < 0.3): return None
    d = {}
    for k in rng.sample(HKEYS, rng.randint(0, 3)):
        r = rng.random()
        if r < 0.35: d[k] = {"t": "float", "v": fhex(rng.choice(FLOATS))}
        elif r < 0.6: d[k] = {"t": "int", "v": rng.randint(-5, 1000)}
        elif r < 0.8: d[k] = g_f64(rng, [rng.randint(1, 3)])
        elif r < 0.9: d[k] = {"t": "s", "v": rng.choice(["ridge", "bä", "x", ""])}
        elif r < 0.94: d[k] = {"t": "by", "v": rng.choice([[114, 97, 119], [255, 1], [195, 164]])}      # bytes stay bytes
        else: d[k] = None
    return {"t": "dict", "v": d}

def gen_obj(rng, key, mode=None, dims=None):
    mode = mode or rng.choice(["all", "none", "mix", "mix", "mix"])
    n, p, t = dims or (rng.randint(1, 4), rng.randint(1, 5), rng.randint(1, 3))
    o = {}
    if key == "DM":
        sh = rng.choice([[n], [n, p], [2, n, p]])
        o["mat"] = rng.choice([lambda: g_f64(rng, sh), lambda: g_int(rng, sh, -100, 100, rng.choice(["i8", "i32", "i64"])), lambda: g_int(rng, sh, 0, 1, "b")])()
    elif key == "TM":
        o["mat"] = g_f64(rng, [n, p]); g_taxa_part(rng, o, n, mode)
    elif key == "VrM":
        o["mat"] = g_f64(rng, [p, n]) if rng.random() < 0.5 else g_int(rng, [p, n], 0, 2, "i8"); g_vrnt_part(rng, o, p, mode)
    elif key == "GM":
        pl = rng.choice([1, 2, 2, 4])
        o["mat"] = g_int(rng, [n, p], 0, pl, "i8"); g_taxa_part(rng, o, n, mode); g_vrnt_part(rng, o, p, mode)
        o["ploidy"] = {"t": "int", "v": pl}
    elif key == "PGM":
        m = rng.choice([1, 2, 2, 3])
        o["mat"] = g_int(rng, [m, n, p], 0, 1, "i8"); g_taxa_part(rng, o, n, mode); g_vrnt_part(rng, o, p, mode)
    elif key == "BV":
        o["mat"] = g_f64(rng, [n, t]); o["location"] = g_f64(rng, [t], special=False); o["scale"] = g_f64(rng, [t], nonneg=True)
        g_taxa_part(rng, o, n, mode); o["trait"] = opt(rng, mode, lambda: g_str(rng, t))
    elif key == "CM":
        o["mat"] = g_f64(rng, [n, n]); g_taxa_part(rng, o, n, mode)
        for f in ["taxa_grp"] + TAXA_META:                      # the coancestry setters insist on int64
            if o.get(f) is not None: o[f]["t"] = "i64"
    elif key in ("STT", "VM"):
        o["mat"] = g_f64(rng, [n, n, t]); g_taxa_part(rng, o, n, mode); o["trait"] = opt(rng, mode, lambda: g_str(rng, t))
    elif key in ("ALGM", "ADLGM"):
        q = rng.randint(1, 2)
        o["beta"] = g_f64(rng, [q, t]); o["u_misc"] = opt(rng, mode, lambda: g_f64(rng, [rng.randint(0, 2), t]))
        o["u_a"] = opt(rng, "all" if mode == "all" else "mix", lambda: g_f64(rng, [p, t]))
        if key == "ADLGM": o["u_d"] = opt(rng, "all" if mode == "all" else "mix", lambda: g_f64(rng, [p, t]))
        o["trait"] = opt(rng, mode, lambda: g_str(rng, t))
        o["model_name"] = opt(rng, mode, lambda: {"t": "s", "v": rng.choice(["rrBLUP", "mödel ü", "", "G/BLUP"])})
        o["hyperparams"] = g_hyper(rng, mode)
    elif key == "GE":
        ne = rng.randint(1, 3)
        o["nenv"] = {"t": "int", "v": ne}
        o["nrep"] = g_int(rng, [ne], 1, 4, rng.choice(["i64", "i64", "i32", "i8"])) if rng.random() < 0.7 else {"t": "int", "v": rng.randint(1, 3)}
        for f in ("var_env", "var_rep", "var_err"):
            o[f] = opt(rng, mode, lambda: g_f64(rng, [t], nonneg=True))
        o["_ntrait"] = t
    return o

GROUPS = [None, "g", "g/", "a/b", "a/b/", "/abs/x", "données/ü", "日本/x/", "a//b", "deep/er/and/deeper"]
def gen_h5(rng, key=None, ntr=None, dims_in=None):
    key = key or rng.choice(H5_CLASSES)
    k = rng.random()
    nsteps = 1 if k < 0.3 else (2 if k < 0.7 else 3)
    modes = [None] * nsteps
    if nsteps >= 2 and rng.random() < 0.6:          # rich -> poor, the pattern named in the property
        modes = ["all"] + [rng.choice(["none", "mix"]) for _ in range(nsteps - 1)]
    routes = ["new"] * nsteps
    dims = None
    if rng.random() < 0.45:
        routes = [rng.choice(["new", "copy", "deepcopy"])] + [rng.choice(["new", "setattr", "setattr", "copy", "deepcopy"]) for _ in range(nsteps - 1)]
        if "setattr" in routes: dims = dims_in or (rng.randint(1, 4), rng.randint(1, 5), rng.randint(1, 3))      # setters check lengths against the matrix
    objs = [gen_obj(rng, key, m, dims or dims_in) for m in modes]
    if key == "GE":
        for o in objs: o["_ntrait"] = objs[0]["_ntrait"]; 
        for o in objs:
            for f in ("var_env", "var_rep", "var_err"):
                if o.get(f) is not None and o[f]["sh"] != [o["_ntrait"]]: o[f] = g_f64(rng, [o["_ntrait"]], nonneg=True)
    ow = [True] + [rng.random() < 0.85 for _ in range(nsteps - 1)]
    if rng.random() < 0.1: ow[0] = False
    c = {"kind": "h5", "cls": key, "group": rng.choice(GROUPS), "handle": rng.random() < 0.4, "objs": objs, "overwrite": ow}
    if routes != ["new"] * nsteps: c["routes"] = routes
    return c

def gen_cases(rng, tier):
    cases = []
    N = 30 if tier == "quick" else 250
    for key in H5_CLASSES:
        for _ in range(N): cases.append(gen_h5(rng, key))
    # more taxa / variants than an int8 (or uint8) index can count, grouped and ungrouped
    for _ in range(1 if tier == "quick" else 8):
        for key, dims in (("TM", (rng.randint(130, 300), 2, 1)), ("GM", (rng.randint(130, 260), 3, 1)), ("VrM", (2, rng.randint(260, 400), 1))):
            cases.append(gen_h5(rng, key, dims_in=dims))
    M = 20 if tier == "quick" else 150
    for key in CLS:
        for i in range(M): cases.append(gen_copy(rng, key, i))
    for i in range(64 if tier == "quick" else 600): cases.append(gen_vcf(rng, ties=(i % 8 == 7)))
    for i in range(72 if tier == "quick" else 720): cases.append(gen_vcf_rich(rng, i))
    for key in ["BV", "CM", "VM", "SGMAP", "EGMAP", "ALGM", "ADLGM", "STT"]:
        for i in range((30 if key != "STT" else 16) if tier == "quick" else 250): cases.append(gen_df(rng, key))
    for i in range(60 if tier == "quick" else 600): cases.append(gen_wd(rng))
    for i in range(40 if tier == "quick" else 400): cases.append(gen_rd(rng))
    # several objects of different classes in ONE file: every persistable class takes part, by name and by handle
    for i in range(10 if tier == "quick" else 60):
        for key in H5_CLASSES: cases.append(gen_mh5(rng, key, i))
    return cases

# ------------------------------------------------------------------------------------------------ predicate
def _flat_keys(o):
    """dataset names a faithful to_hdf5 of the observed object must leave below the group (nested one level)"""
    ks = set()
    for k, v in o.items():
        if v is None: continue
        if v["t"] == "dict":
            for kk, vv in v["v"].items():
                if vv is not None: ks.add(k + "/" + kk)
        else: ks.add(k)
    return ks

def _norm_group(g):
    return "/".join(c for c in (g or "").split("/") if c)

def pred_h5(case, out):
    bad = []
    last = None
    g = _norm_group(case["group"])
    for i, ow in enumerate(case["overwrite"]):
        w = out["writes"][i]
        if w is not None:
            if ow or last is None:
                bad.append("step %d: to_hdf5 raised %s: %s" % (i, w["exc"], w["msg"])); continue
            # refusing to overwrite: the location must still hold the previous object
        else:
            last = i
        if last is None: continue
        r = out["reads"][i]
        if "exc" in r:
            bad.append("step %d: from_hdf5 raised %s: %s" % (i, r["exc"], r["msg"])); continue
        d = oeq(out["orig"][last], r)
        if d: bad.append("step %d: object read back differs from the last object written (step %d) in %s" % (i, last, ",".join(d)))
        dump = out["dumps"][i] or {}
        pre = g + "/" if g else ""
        have = {k[len(pre):] for k, v in dump.items() if v != "G" and k.startswith(pre)}
        want = _flat_keys({k: v for k, v in out["orig"][last].items() if k in [a for a, _ in WRITTEN.get(case["cls"], [])] or True})
        want = {k for k in want if k.split("/")[0] in WRITTEN_KEYS[case["cls"]]}
        extra = have - want
        if extra: bad.append("step %d: stale datasets left in the file: %s" % (i, ",".join(sorted(extra))))
        miss = want - have
        if miss: bad.append("step %d: datasets missing from the file: %s" % (i, ",".join(sorted(miss))))
    return bad

# keys every class is expected to persist: all constructor fields and all metadata (the property: "all data, labels,
# group metadata and parameters"); written down here independently of the source and of the Coq tables
WRITTEN_KEYS = {k: set(CLS[k][2] + CLS[k][3]) | ({"ploidy"} if k == "PGM" else set()) for k in CLS}
WRITTEN = {}

def pred(case, out):
    if "exc" in out: return ["harness/implementation raised %s: %s" % (out["exc"], out.get("msg"))]
    bad = {"h5": pred_h5, "copy": pred_copy, "vcf": pred_vcf, "df": pred_df, "wd": pred_wd, "rd": pred_rd, "mh5": pred_mh5}[case["kind"]](case, out)
    seen = []
    for b in bad:
        if b not in seen: seen.append(b)
    return seen[:8]

def _hyper_none(o):
    h = o.get("hyperparams")
    return h is not None and any(v is None for v in h["v"].values())

def classify(case, out, clauses):
    if case["kind"] == "h5" and case["cls"] in ("ALGM", "ADLGM") and "exc" not in out:
        # known: a hyper-parameter whose value is None cannot be stored and is dropped; accepted only when nothing but the
        # hyper-parameters of an object with such an entry differs (stale members and str -> bytes are repaired: violations)
        only_h = all("differs" in c and c.rstrip().endswith(" in hyperparams") for c in clauses)
        if clauses and only_h:
            steps = [int(c.split("(step ")[1].split(")")[0]) for c in clauses]
            if all(_hyper_none(case["objs"][i]) for i in steps): return "C16-h5-hyperparams-none-dropped"
    if case["kind"] == "vcf": return None          # C16-vcf-pos-int32-wrap is repaired (variant.start + 1): a wrapped coordinate is a violation
    if case["kind"] == "df" and clauses:
        tags = set()
        for c in clauses:
            if not c.startswith("["): return None
            tags.add(c[1:c.index("]")])
        o = case["obj"]; key = case["cls"]
        # each tag is accepted only on the input pattern that is known to trigger it; one finding id per case
        if "absent-labels" in tags and not any(o.get(f) is None for f in LABEL_FIELDS[key]): return None
        if "bv-location-scale" in tags and key != "BV": return None
        if "vmat-sorted" in tags:
            srt = lambda v: v is None or (v["d"] == sorted(v["d"]) and len(set(v["d"])) == len(v["d"]))
            if key not in ("VM", "STT") or (srt(o.get("taxa")) and srt(o.get("trait"))): return None
        if "gmap-cM-rounding" in tags:
            if key not in ("SGMAP", "EGMAP") or case["opts"].get("units") not in ("cM", "centiMorgans"): return None
            if all(0.01 * (100.0 * x) == x for x in _fl(o["vrnt_genpos"])): return None
        if "gmap-default-units" in tags and not (key in ("SGMAP", "EGMAP") and case["opts"].get("defaults")): return None
        if "csv-float-parse" in tags:
            if case["via"] not in ("csv", "egmap", "egmap_file") or not any(_long_float(x) for v in o.values() if isinstance(v, dict) and v.get("t") == "f64" for x in _fl(v)): return None
        for t, fid in (("gmap-default-units", "C16-gmap-default-units-mismatch"),
                       ("csv-float-parse", "C16-csv-float-parse"), ("bv-location-scale", "C16-bv-pandas-location-scale"), ("vmat-sorted", "C16-vmat-pandas-sorted"),
                       ("gmap-cM-rounding", "C16-gmap-cM-rounding"), ("absent-labels", "C16-df-absent-labels")):
            if t in tags: return fid
    return None

def nontrivial(case, out):
    if case["kind"] == "h5":
        o = out.get("orig", [])
        return bool(o) and any(v is None for v in o[-1].values()) and any(v is not None for k, v in o[-1].items() if k not in ("mat", "beta", "nenv")) or len(o) >= 2
    return True

def describe(case, out):
    d = {"kind": case["kind"], "cls": case.get("cls")}
    if case["kind"] == "h5":
        d["writes"] = len(case["objs"]); d["group"] = "root" if case["group"] is None else ("non-ascii" if any(ord(c) > 127 for c in case["group"]) else "nested" if "/" in case["group"].strip("/") else "plain")
        d["all_overwrite"] = all(case["overwrite"])
        d["routes"] = ",".join(sorted(set(out.get("routes", ["new"])))) if isinstance(out, dict) else "?"
    if case["kind"] == "mh5":
        d["writes"] = len(case["steps"]); d["locations"] = len({_norm_group(t["group"]) for t in case["steps"]})
        d["by"] = ",".join(sorted({t["how"] for t in case["steps"]})); d["all_overwrite"] = all(t["ow"] for t in case["steps"])
    if case["kind"] == "copy": d["how"] = case["how"]; d["src"] = case.get("src", "new")
    if case["kind"] == "df": d["via"] = case["via"]; d["defaults"] = bool(case.get("opts", {}).get("defaults")); d["bypos"] = bool(case.get("opts", {}).get("bypos"))
    return d

# ------------------------------------------------------------------------------------------------ copies
def _spline_obs(o):
    sp = getattr(o, "spline", None)
    if sp is None: return None
    return {"t": "dict", "v": {str(int(k)): ob(numpy.asarray(v.y, dtype=float)) for k, v in sp.items()}}

def observe_c(key, o):
    d = observe(key, o)
    if key in ("SGMAP", "EGMAP"): d["spline"] = _spline_obs(o)
    if key == "GE":
        for a in ("beta", "u_a"): d["gpmod." + a] = ob(getattr(o.gpmod, a))
    return d

def _shares(a, b):
    """do two attribute values share mutable state?  None for immutable values"""
    if a is None or b is None: return None
    if isinstance(a, numpy.ndarray) and isinstance(b, numpy.ndarray): return bool(numpy.shares_memory(a, b))
    if isinstance(a, dict) and isinstance(b, dict): return a is b
    if isinstance(a, (int, float, str, bytes, bool, numpy.generic)): return None
    return a is b

def _mutate_arr(x):
    if x.size == 0: return
    if x.dtype == object: x[(0,) * x.ndim] = "MUT"
    elif x.dtype == bool: x[(0,) * x.ndim] = not x[(0,) * x.ndim]
    elif x.dtype.kind == "f": x[(0,) * x.ndim] = 12345.5
    else: x[(0,) * x.ndim] = (int(x[(0,) * x.ndim]) + 1) % 100

def run_copy(case):
    key = case["cls"]
    o = build(key, case["obj"])
    if case.get("src") == "copy": o = _copy.copy(o)                 # lifecycle: the source is itself a copy / a deep copy
    elif case.get("src") == "deepcopy": o = _copy.deepcopy(o)
    before = observe_c(key, o)
    how = case["how"]
    if how == "copy": c = _copy.copy(o)
    elif how == "deepcopy": c = _copy.deepcopy(o)
    elif how == "m_copy": c = o.copy()
    else: c = o.deepcopy() if key not in ("GM", "PGM", "BV", "DM", "TM", "VrM", "CM", "STT", "VM") else o.deepcopy({})
    out = {"before": before, "copy": observe_c(key, c), "same": c is o, "type_same": type(c) is type(o), "shares": {}}
    if key == "GE": out["gpmod_obs"] = observe("ALGM", o.gpmod)
    names = attrs(key) + (["spline"] if key in ("SGMAP", "EGMAP") else []) + (["gpmod", "rng"] if key == "GE" else [])
    for a in names:
        x, y = getattr(o, a), getattr(c, a)
        out["shares"][a] = _shares(x, y)
        if isinstance(x, dict) and isinstance(y, dict):
            for k in x:
                if k in y:
                    xv, yv = x[k], y[k]
                    if hasattr(xv, "y") and hasattr(yv, "y"):              # interp1d
                        out["shares"]["%s.%s" % (a, int(k))] = (xv is yv) or bool(numpy.shares_memory(xv.y, yv.y))
                    else:
                        s = _shares(xv, yv)
                        if s is not None: out["shares"]["%s.%s" % (a, k)] = s
                        if isinstance(xv, dict) and isinstance(yv, dict):          # one level further: members of a dictionary-valued member
                            for kk in xv:
                                if kk in yv and _shares(xv[kk], yv[kk]): out["shares"]["%s.%s.%s" % (a, k, kk)] = True
        if a == "gpmod":
            for b in ("beta", "u_a"): out["shares"]["gpmod." + b] = bool(numpy.shares_memory(getattr(x, b), getattr(y, b)))
    # mutate everything reachable from the copy
    for a in names:
        y = getattr(c, a)
        if isinstance(y, numpy.ndarray): _mutate_arr(y)
        elif isinstance(y, dict):
            for k, v in list(y.items()):
                if isinstance(v, numpy.ndarray): _mutate_arr(v)
                elif hasattr(v, "y"): _mutate_arr(v.y)
                elif isinstance(v, list):
                    if v: v[0] = 12345.5
                    v.append(-1.0)
                elif isinstance(v, dict):
                    for vv in v.values():
                        if isinstance(vv, numpy.ndarray): _mutate_arr(vv)
                        elif isinstance(vv, list): vv.append(-1.0)
                    v["__new__"] = 1
            y["__new__"] = 1
        elif a == "gpmod":
            _mutate_arr(y.beta); _mutate_arr(y.u_a)
    out["after"] = observe_c(key, o)
    return out

_RUN = {"h5": run_h5, "copy": run_copy}
def run_impl(case):
    with warnings.catch_warnings():
        warnings.simplefilter("ignore")
        return _RUN[case["kind"]](case)

def gen_map_obj(rng, key, spline=None):
    nchr = rng.randint(1, 3); per = [rng.randint(2, 3) for _ in range(nchr)]
    chrs = []
    for i, k in enumerate(per): chrs += [i + 1] * k
    p = len(chrs)
    pos = []
    for i, k in enumerate(per): pos += sorted(rng.sample(range(1, 1000), k))
    order = list(range(p)); rng.shuffle(order)
    gp = []
    for i, k in enumerate(per):
        x = 0.0
        for _ in range(k): x += rng.randint(1, 64) / 256 if rng.random() < 0.7 else rng.uniform(0.001, 0.3); gp.append(x)
    o = {"vrnt_chrgrp": {"t": "i64", "sh": [p], "d": [chrs[i] for i in order]},
         "vrnt_phypos": {"t": "i64", "sh": [p], "d": [pos[i] for i in order]},
         "vrnt_genpos": {"t": "f64", "sh": [p], "d": [fhex(gp[i]) for i in order]},
         "_auto_group": rng.random() < 0.8, "_spline": (rng.random() < 0.7) if spline is None else spline}
    if key == "EGMAP":
        o["vrnt_stop"] = {"t": "i64", "sh": [p], "d": [pos[i] + rng.randint(0, 5) for i in order]}
        o["vrnt_name"] = g_str(rng, p) if rng.random() < 0.6 else None
        o["vrnt_fncode"] = g_str(rng, p) if rng.random() < 0.4 else None
    return o

HOWS = ["copy", "deepcopy", "m_copy", "m_deepcopy"]
def g_hyper_mutable(rng):
    """a hyper-parameter dictionary with mutable members: always an ndarray, often a python list, sometimes a dictionary"""
    d = {rng.choice(["a", "λ"]): g_f64(rng, [rng.randint(1, 3)], special=False)}
    if rng.random() < 0.6: d["lst"] = {"t": "list", "d": [fhex(rng.randint(-8, 8) / 4) for _ in range(rng.randint(0, 3))]}
    if rng.random() < 0.3: d["sub"] = {"t": "dict", "v": {"w": g_f64(rng, [2], special=False), "n": {"t": "int", "v": rng.randint(0, 9)}}}
    if rng.random() < 0.5: d["lr"] = {"t": "float", "v": fhex(rng.choice(FLOATS[:8]))}
    return {"t": "dict", "v": d}

def gen_copy(rng, key=None, i=None):
    key = key or rng.choice(list(CLS))
    o = gen_map_obj(rng, key) if key in ("SGMAP", "EGMAP") else gen_obj(rng, key)
    if key in ("ALGM", "ADLGM") and rng.random() < 0.8: o["hyperparams"] = g_hyper_mutable(rng)
    if key in ("SGMAP", "EGMAP") and rng.random() < 0.5:
        o["_kind"] = rng.choice(["nearest", "previous", "next"]); o["_kind_build"] = rng.random() < 0.7
    c = {"kind": "copy", "cls": key, "obj": o, "how": rng.choice(HOWS) if i is None else HOWS[i % 4]}       # every form for every class
    r = rng.random()
    if r < 0.15: c["src"] = "copy"
    elif r < 0.3: c["src"] = "deepcopy"
    return c

SHARED_ON_PURPOSE = {"GE": {"rng"}}
def pred_copy(case, out):
    bad = []
    if out["same"]: bad.append("the copy is the source object itself")
    if not out["type_same"]: bad.append("the copy has another class")
    d = oeq(out["before"], out["copy"])
    if d: bad.append("%s differs from its source in %s" % (case["how"], ",".join(d)))
    if case["how"] in ("deepcopy", "m_deepcopy"):
        sh = [a for a, v in out["shares"].items() if v and a not in SHARED_ON_PURPOSE.get(case["cls"], ())]
        if sh: bad.append("deep copy shares mutable state with its source: %s" % ",".join(sorted(sh)))
        d = oeq(out["before"], out["after"])
        if d: bad.append("mutating the deep copy changed the source in %s" % ",".join(d))
    else:
        # a shallow copy may share the contents of containers, but not the top-level arrays/containers themselves
        sh = [a for a, v in out["shares"].items() if v and "." not in a and a not in SHARED_ON_PURPOSE.get(case["cls"], ())]
        if sh: bad.append("shallow copy aliases top-level attributes of its source: %s" % ",".join(sorted(sh)))
    return bad

# ------------------------------------------------------------------------------------------------ VCF import
def vcf_text(case):
    lines = ["##fileformat=VCFv4.2"]
    # contig lines in the order the case gives (file order need not be the sorted order), else sorted
    for c in case.get("contigs") or sorted({r["chrom"] for r in case["records"]}): lines.append("##contig=<ID=%d>" % c)
    lines.append('##FORMAT=<ID=GT,Number=1,Type=String,Description="Genotype">')
    lines.append("\t".join(["#CHROM", "POS", "ID", "REF", "ALT", "QUAL", "FILTER", "INFO", "FORMAT"] + case["samples"]))
    for r in case["records"]:
        gts = ["%d|%d" % (a, b) for a, b in r["gt"]]
        lines.append("\t".join([str(r["chrom"]), str(r["pos"]), r["id"], r["ref"], r["alt"], ".", "PASS", ".", "GT"] + gts))
    return "\n".join(lines) + "\n"

def run_vcf(case):
    key = case["cls"]; cls = klass(key)
    fn = _tmp(case, ".vcf")
    try:
        with open(fn, "w", encoding="utf-8") as f: f.write(vcf_text(case))
        g = cls.from_vcf(fn, auto_group_vrnt=case["auto_group"])
        return {"obj": observe(key, g), "contiguous": bool(g.mat.flags["C_CONTIGUOUS"])}
    finally:
        if os.path.exists(fn): os.remove(fn)
_RUN["vcf"] = run_vcf

def gen_vcf(rng, ties=False):
    n = rng.randint(1, 4); p = rng.randint(1, 6)
    samples = g_ustr(rng, n)["d"]
    samples = [s.replace("/", "_").replace(" ", "_") or "S%d" % i for i, s in enumerate(samples)]
    coords = set()
    recs = []
    for j in range(p):
        while True:
            c, pos = rng.randint(1, 3), rng.randint(1, 30)
            if ties and recs and rng.random() < 0.4: c, pos = recs[-1]["chrom"], recs[-1]["pos"]; break
            if (c, pos) not in coords: break
        coords.add((c, pos))
        recs.append({"chrom": c, "pos": pos, "id": rng.choice(["rs%d" % rng.randint(1, 999), "m_%d" % j, ".", "snp-é%d" % j, "日本%d" % j]),
                     "ref": rng.choice("ACGT"), "alt": rng.choice("ACGT"), "gt": [[rng.randint(0, 1), rng.randint(0, 1)] for _ in range(n)]})
    if rng.random() < 0.5: recs.sort(key=lambda r: (r["chrom"], r["pos"]))
    return {"kind": "vcf", "cls": rng.choice(["PGM", "GM"]), "samples": samples, "records": recs, "auto_group": rng.random() < 0.6, "ties": ties}

POS_MAX32 = 2 ** 31 - 1
def _bases(rng, k): return "".join(rng.choice("ACGT") for _ in range(k))
def _alleles(rng, kind):
    """(REF, ALT) text of one record: snp | del (REF longer) | ins (ALT longer) | mnp (equal length > 1) | multi (several ALT alleles)"""
    if kind == "snp":
        r = rng.choice("ACGT"); return r, rng.choice([b for b in "ACGT" if b != r])
    if kind == "del":
        r = _bases(rng, rng.randint(2, 9)); return r, r[0]
    if kind == "ins":
        r = rng.choice("ACGT"); return r, r + _bases(rng, rng.randint(1, 6))
    if kind == "mnp":
        k = rng.randint(2, 4); return _bases(rng, k), _bases(rng, k)
    r = _bases(rng, rng.randint(1, 4)); return r, ",".join([r[0] + _bases(rng, rng.randint(0, 3)) + "T", r[0]][:rng.randint(1, 2)] + ["<DEL>"][:rng.randint(0, 1)])
def _vcf_pos(rng, mode):
    k = rng.random()
    if mode == "big" and k < 0.5: return rng.choice([2 ** 31, 2 ** 31 + rng.randint(1, 10 ** 6), 2 ** 32 + rng.randint(-3, 3), rng.randint(2 ** 31, 2 ** 40), 5 * 10 ** 9])
    if k < 0.35: return rng.randint(1, 40)
    if k < 0.7: return rng.randint(41, 10 ** 7)
    if k < 0.85: return rng.randint(10 ** 7, 2 ** 30)
    return POS_MAX32 - rng.choice([0, 0, 1, 2, rng.randint(3, 1000)])           # the largest coordinates a 32-bit POS can hold

def gen_vcf_rich(rng, i):
    """VCF text as real call sets have it: deletions / MNPs (REF longer than one base), insertions, several ALT alleles, missing
    identifiers, contigs whose file order is not the sorted order, coordinates up to (and, in one case out of six, beyond) 2^31,
    many samples, duplicated coordinates, every one of the four phased diploid calls; importer x auto_group_vrnt cycle with i"""
    cls = ("PGM", "GM")[i % 2]; auto = bool((i // 2) % 2)
    many = (i % 9 == 4)                                   # more samples than an int8 / uint8 counter holds
    mode = "big" if i % 7 == 5 else "std"                 # 7, 9, 5 are coprime to 4: every importer x flag combination meets every dimension
    ties = (i % 5 == 3)
    n = rng.randint(130, 300) if many else rng.randint(1, 5)
    p = rng.randint(2, 4) if many else rng.randint(1, 9)
    if many: samples = ["S%03d" % k for k in range(n)]; rng.shuffle(samples)
    else:
        samples = g_ustr(rng, n)["d"]
        samples = [s.replace("/", "_").replace(" ", "_") or "S%d" % k for k, s in enumerate(samples)]
    contigs = rng.sample([1, 2, 3, 4, 5, 7, 10, 11, 12, 20, 23, 100, 1000, 2 ** 31 + 5], rng.randint(1, 4))      # header order as drawn
    recs = []; coords = set()
    for j in range(p):
        while True:
            c, pos = rng.choice(contigs), _vcf_pos(rng, mode)
            if ties and recs and rng.random() < 0.45: c, pos = recs[-1]["chrom"], recs[-1]["pos"]; break
            if (c, pos) not in coords: break
        coords.add((c, pos))
        ref, alt = _alleles(rng, rng.choice(["snp", "del", "del", "ins", "mnp", "multi"]))
        rid = rng.choice([".", ".", "rs%d" % rng.randint(1, 10 ** 9), "m_%d" % j, "snp-é%d" % j, "日本%d" % j, "%d_%d" % (c, pos), "a;b%d" % j, "None", "dup"])
        recs.append({"chrom": c, "pos": pos, "id": rid, "ref": ref, "alt": alt, "gt": [[rng.randint(0, 1), rng.randint(0, 1)] for _ in range(n)]})
    # all four phased calls occur (first sample-major cells), whenever there is room for them
    cells = [(j, k) for j in range(p) for k in range(n)][:4]
    if len(cells) == 4:
        for (j, k), g in zip(cells, rng.sample([[0, 0], [0, 1], [1, 0], [1, 1]], 4)): recs[j]["gt"][k] = g
    order = rng.choice(["file", "contig-blocks", "sorted"])
    if order == "contig-blocks":                         # records grouped by contig in HEADER order, positions ascending inside a contig
        recs.sort(key=lambda r: (contigs.index(r["chrom"]), r["pos"]))
    elif order == "sorted": recs.sort(key=lambda r: (r["chrom"], r["pos"]))
    return {"kind": "vcf", "cls": cls, "samples": samples, "contigs": contigs, "records": recs, "auto_group": auto, "ties": ties, "rich": True}

def pred_vcf(case, out):
    """the property on the outputs, against the TEXT of the file (no model): every field the importer fills equals the column of the
    file it stands for - the POS column as written, whatever its size (coordinates >= 2^31 included)"""
    bad = []
    o = out["obj"]; recs = case["records"]; n = len(case["samples"]); p = len(recs)
    def arr(k): return None if o[k] is None else o[k]
    if o["taxa"] is None or o["taxa"].get("d") != case["samples"]: bad.append("sample names not reproduced")
    phased = case["cls"] == "PGM"
    want_sh = [2, n, p] if phased else [n, p]
    if o["mat"]["sh"] != want_sh or o["mat"]["t"] != "i8": bad.append("genotype array has dtype/shape %s%s, expected int8%s" % (o["mat"]["t"], o["mat"]["sh"], want_sh)); return bad
    d = o["mat"]["d"]
    def col(j):
        if phased: return tuple(d[ph * n * p + i * p + j] for ph in range(2) for i in range(n))
        return tuple(d[i * p + j] for i in range(n))
    def wantcol(r):
        if phased: return tuple(r["gt"][i][ph] for ph in range(2) for i in range(n))
        return tuple(r["gt"][i][0] + r["gt"][i][1] for i in range(n))
    for k in ("vrnt_chrgrp", "vrnt_phypos", "vrnt_name"):
        if o[k] is None or len(o[k]["d"]) != p: bad.append("%s missing or of wrong length" % k); return bad
    for k, t in (("vrnt_chrgrp", "i64"), ("vrnt_phypos", "i64")):
        if o[k]["t"] != t: bad.append("%s has dtype %s, expected int64" % (k, o[k]["t"]))
    fpos = lambda r: r["pos"]
    got = [(o["vrnt_chrgrp"]["d"][j], o["vrnt_phypos"]["d"][j], o["vrnt_name"]["d"][j], col(j)) for j in range(p)]
    want = [(r["chrom"], fpos(r), "None" if r["id"] == "." else r["id"], wantcol(r)) for r in recs]
    perm = list(range(p))                                 # file record standing at output position j
    if case["auto_group"]:
        if sorted(got) != sorted(want): bad.append("variants (coordinate, identifier, calls) not reproduced as a multiset")
        keys = [(g[0], g[1]) for g in got]
        if keys != sorted(keys): bad.append("variants not sorted by (chromosome, position) after grouping")
        if not case.get("ties") and got != sorted(want, key=lambda t: (t[0], t[1])): bad.append("variant order differs from the sorted file order")
        chroms = sorted({r["chrom"] for r in recs})
        cnt = [sum(1 for r in recs if r["chrom"] == c) for c in chroms]
        st = [sum(cnt[:i]) for i in range(len(chroms))]
        exp = {"vrnt_chrgrp_name": chroms, "vrnt_chrgrp_stix": st, "vrnt_chrgrp_spix": [a + b for a, b in zip(st, cnt)], "vrnt_chrgrp_len": cnt}
        for k, v in exp.items():
            if o[k] is None or o[k]["d"] != v: bad.append("%s wrong after import" % k)
        # the stable order (records with equal coordinates keep their file order: numpy.lexsort is stable)
        perm = sorted(range(p), key=lambda j: (recs[j]["chrom"], fpos(recs[j])))
    else:
        if got != want: bad.append("variant coordinates / identifiers / calls differ from the file (positionally)")
        for k in VRNT_META:
            if o[k] is not None: bad.append("%s set although grouping was not requested" % k)
    # field by field, each against its own column of the file text (CHROM, POS, ID, the GT calls; REF / ALT where they are filled)
    w = [want[j] for j in perm]
    for ix, (k, colname) in enumerate((("vrnt_chrgrp", "CHROM"), ("vrnt_phypos", "POS"), ("vrnt_name", "ID"))):
        g_ = [t[ix] for t in got]; w_ = [t[ix] for t in w]
        if g_ != w_:
            j = next(j for j in range(p) if g_[j] != w_[j])
            r = recs[perm[j]]
            bad.append("%s is not the %s column of the file: variant %d (line %d: %s %s %s %s %s) has %r, the file says %r"
                       % (k, colname, j, perm[j], r["chrom"], r["pos"], r["id"], r["ref"], r["alt"], g_[j], w_[j]))
    gm = [t[3] for t in got]; wm = [t[3] for t in w]
    if gm != wm:
        j = next(j for j in range(p) if gm[j] != wm[j]); i = next(i for i in range(len(gm[j])) if gm[j][i] != wm[j][i])
        bad.append("allele calls are not the GT column of the file: variant %d (line %d), cell %d has %r, the file says %r" % (j, perm[j], i, gm[j][i], wm[j][i]))
    for k, f in (("vrnt_hapref", "ref"), ("vrnt_hapalt", "alt")):
        if o.get(k) is not None and o[k].get("d") != [recs[j][f] for j in perm]: bad.append("%s filled, but not with the %s column of the file" % (k, f.upper()))
    if o.get("ploidy") is not None and _scalar(o["ploidy"]) != ("i", 2): bad.append("ploidy != 2 for diploid calls")
    for k in ("taxa_grp", "vrnt_genpos", "vrnt_xoprob", "vrnt_hapgrp", "vrnt_mask"):
        if o[k] is not None: bad.append("%s invented by the import" % k)
    return bad

# ------------------------------------------------------------------------------------------------ data frames / CSV
def cell(x):
    """a data-frame cell / column label -> JSON"""
    import pandas
    if x is None or x is pandas.NA: return None
    if isinstance(x, (bool, numpy.bool_)): return {"b": bool(x)}
    if isinstance(x, (int, numpy.integer)): return {"i": int(x)}
    if isinstance(x, (float, numpy.floating)): return {"f": fhex(x)}
    if isinstance(x, str): return {"s": x}
    return {"o": repr(x)[:80]}

def table(df):
    return {"cols": [cell(c) for c in df.columns], "dtypes": [str(t) for t in df.dtypes],
            "data": [[cell(x) for x in df.iloc[:, j].tolist()] for j in range(df.shape[1])]}

def df_options(key, o, case):
    """matching (to, from) keyword options for an object, chosen by the presence of its optional labels"""
    opts = case.get("opts", {})
    if key == "BV":
        tc = "taxa" if o.taxa is not None else None
        gc = "taxa_grp" if o.taxa_grp is not None else None
        to = dict(taxa_col=tc, taxa_grp_col=gc, trait_cols="all" if o.trait is not None else None, unscale=bool(opts.get("unscale", False)))
        fr = dict(taxa_col=tc, taxa_grp_col=gc, trait_cols="infer", location=o.location, scale=o.scale)
        return to, fr
    if key == "CM":
        gc = "taxa_grp" if (o.taxa_grp is not None or opts.get("grp_col_anyway")) else None
        return dict(taxa_col="taxa", taxa_grp_col=gc, taxa="all"), dict(taxa_col="taxa", taxa_grp_col=gc, taxa="all")
    if key == "VM":
        gc = o.taxa_grp is not None
        kw = dict(female_col="female", female_grp_col="female_grp" if gc else None, male_col="male", male_grp_col="male_grp" if gc else None,
                  trait_col="trait", variance_col="variance")
        return kw, dict(kw)
    if key == "STT":
        gc = o.taxa_grp is not None
        kw = dict(taxa_colnames=True, taxa_grp_colnames=gc, trait_colnames=True, value_colname="value")
        return kw, dict(kw, ntaxaaxes=2)
    if key in ("SGMAP", "EGMAP"):
        if opts.get("defaults"): return {}, {}                       # default arguments on both sides
        u = opts.get("units", "cM")
        ag = bool(case["obj"].get("_auto_group", True)); sp = bool(case["obj"].get("_spline", True))
        to = dict(vrnt_genpos_units=u)
        # matching options: units, grouping, and the interpolation settings of the source
        fr = dict(vrnt_genpos_units=u, auto_group=ag, auto_build_spline=sp, spline_kind=o.spline_kind, spline_fill_value=o.spline_fill_value)
        if key == "EGMAP":
            fr["vrnt_name_col"] = "name" if o.vrnt_name is not None else None
            fr["vrnt_fncode_col"] = "fncode" if o.vrnt_fncode is not None else None
        return to, fr
    if key in ("ALGM", "ADLGM"):
        return dict(trait_cols="trait"), dict(trait_cols="infer", model_name=o.model_name, hyperparams=o.hyperparams)
    raise ValueError(key)

def egmap_text(o):
    """an egmap file written by hand: chr, pos, stop, Morgans and the optional columns under the names from_egmap documents"""
    cols = ["chr_grp", "chr_start", "chr_stop", "map_pos"] + (["mkr_name"] if o.get("vrnt_name") else []) + (["map_fncode"] if o.get("vrnt_name") and o.get("vrnt_fncode") else [])
    rows = ["\t".join(cols)]
    for i in range(len(o["vrnt_chrgrp"]["d"])):
        r = [str(o["vrnt_chrgrp"]["d"][i]), str(o["vrnt_phypos"]["d"][i]), str(o["vrnt_stop"]["d"][i]), repr(float.fromhex(o["vrnt_genpos"]["d"][i]))]
        if "mkr_name" in cols: r.append(o["vrnt_name"]["d"][i])
        if "map_fncode" in cols: r.append(o["vrnt_fncode"]["d"][i])
        rows.append("\t".join(r))
    return "\n".join(rows) + "\n"

def run_df(case):
    import contextlib
    with contextlib.redirect_stdout(io.StringIO()):          # DenseSquareTaxaTraitMatrix.to_pandas / from_pandas print debugging output
        return _run_df(case)

def _run_df(case):
    import pandas
    key = case["cls"]; cls = klass(key)
    o = build(key, case["obj"])
    out = {"orig": observe_c(key, o) if key in ("SGMAP", "EGMAP") else observe(key, o)}
    to, fr = df_options(key, o, case)
    if case.get("opts", {}).get("bypos") and key not in ("ALGM", "ADLGM") and fr:
        # the readers accept every column argument by NAME or by POSITION: hand over the positions the writer's frame has
        cols = [str(c) for c in o.to_pandas(**to).columns]
        pref = {"taxa_colnames": lambda c: c.startswith("taxa_") and not c.startswith("taxa_grp_"), "taxa_grp_colnames": lambda c: c.startswith("taxa_grp_"),
                "trait_colnames": lambda c: c.startswith("trait_")}
        for k, v in list(fr.items()):
            if (k.endswith("_col") or k == "value_colname") and isinstance(v, str) and v in cols: fr[k] = cols.index(v)
            elif k in pref and v is True and k != "trait_colnames": fr[k] = [i for i, c in enumerate(cols) if pref[k](c)]      # trait_colnames: see UNCOVERED_ARGS
    out["opts"] = {"to": {k: (v if not isinstance(v, numpy.ndarray) else "<array>") for k, v in to.items()},
                   "from": {k: (v if not isinstance(v, (numpy.ndarray, dict)) else "<obj>") for k, v in fr.items()}}
    multi = key in ("ALGM", "ADLGM")
    files = []
    try:
        if case["via"] in ("egmap", "egmap_file"):
            fn = _tmp(case, ".egmap"); files = [fn]
            if case["via"] == "egmap": o.to_egmap(fn)
            else:
                with open(fn, "w", encoding="utf-8") as f: f.write(egmap_text(case["obj"]))      # a file as the format description has it
            out["df_read"] = table(pandas.read_csv(fn, sep="\t")); out["df"] = out["df_read"]
            back = cls.from_egmap(fn, **{k: v for k, v in fr.items() if k in ("auto_group", "auto_build_spline", "spline_kind", "spline_fill_value")})
        elif case["via"] == "pandas":
            if multi:
                dd = o.to_pandas_dict(**to); out["df"] = {k: table(v) for k, v in dd.items()}
                back = cls.from_pandas_dict(dd, **fr)
                out["df_after"] = {k: table(v) for k, v in dd.items()}
            else:
                df = o.to_pandas(**to); out["df"] = table(df)
                back = cls.from_pandas(df, **fr)
                out["df_after"] = table(df)
        else:
            if multi:
                names = {k: _tmp(case, "_%s.csv" % k) for k in (["beta", "u_misc", "u_a"] + (["u_d"] if key == "ADLGM" else []))}
                files = list(names.values())
                out["df"] = {k: table(v) for k, v in o.to_pandas_dict(**to).items()}
                o.to_csv_dict(names, **to)
                out["df_read"] = {k: table(pandas.read_csv(v)) for k, v in names.items()}
                back = cls.from_csv_dict(names, **fr)
            else:
                fn = _tmp(case, ".csv"); files = [fn]
                out["df"] = table(o.to_pandas(**to))
                o.to_csv(fn, **to)
                out["df_read"] = table(pandas.read_csv(fn))
                back = cls.from_csv(fn, **fr)
        out["back"] = observe_c(key, back) if key in ("SGMAP", "EGMAP") else observe(key, back)
    except Exception as e:
        out["back"] = _exc(e)
        import traceback; out["back"]["tb"] = traceback.format_exc()[-800:]
    finally:
        for f in files:
            if os.path.exists(f): os.remove(f)
    return out
_RUN["df"] = run_df

CSV_LABELS = ["a", "B7", "ä", "ß", "日本", "😀x", "Ω", "line-1", "Zz", "é", "x_y", "t1", "with,comma", 'quo"te', "sp ace", "na/ïve"]
def g_labels(rng, n, csv, distinct=True, sort=None):
    pool = (CSV_LABELS if csv else [l for l in LABELS if l != ""] + ["with,comma"])[:]
    rng.shuffle(pool)
    out = pool[:n]
    if sort is True: out.sort()
    return {"t": "str", "d": out}

def gen_df(rng, key=None, via=None):
    key = key or rng.choice(["BV", "CM", "VM", "STT", "SGMAP", "EGMAP", "ALGM", "ADLGM"])
    via = via or rng.choice(["pandas", "pandas", "csv"])
    csv = via == "csv"
    n, t = rng.randint(1, 4), rng.randint(1, 3)
    grid = lambda sh, **k: {"t": "f64", "sh": list(sh), "d": [fhex(rng.randint(-2048, 2048) / 256) for _ in range(int(numpy.prod(sh)))]}
    fl = (lambda sh, **k: grid(sh)) if ((csv and rng.random() < 0.8) or rng.random() < 0.5) else (lambda sh, **k: g_f64(rng, sh, special=False, tame=True, **k))
    opts = {}
    if key in ("SGMAP", "EGMAP"):
        o = gen_map_obj(rng, key)
        if key == "EGMAP":
            p = o["vrnt_chrgrp"]["sh"][0]
            for f in ("vrnt_name", "vrnt_fncode"):
                if o[f] is not None: o[f] = {"t": "str", "d": [rng.choice(CSV_LABELS) for _ in range(p)]}
        opts["units"] = rng.choice(["cM", "cM", "M", "centiMorgans", "Morgans"])
        r = rng.random()
        if r < 0.15:                                    # default arguments on both sides (the defaults group and build the spline)
            opts = {"defaults": True}; o["_auto_group"] = True; o["_spline"] = True
        elif key == "EGMAP" and r < 0.45:               # the egmap file pair, and files written as the format is documented
            via = rng.choice(["egmap", "egmap", "egmap_file"]); opts = {"units": "M"}
            if via == "egmap_file" and o["vrnt_name"] is None: o["vrnt_fncode"] = None
        if rng.random() < 0.4 and not opts.get("defaults"):
            o["_kind"] = rng.choice(["nearest", "previous", "next"]); o["_kind_build"] = rng.random() < 0.7
        if csv or via != "pandas" or rng.random() < 0.5:
            o["vrnt_genpos"]["d"] = [fhex(round(float.fromhex(x) * 256) / 256 + 1 / 256) for x in o["vrnt_genpos"]["d"]]
        if via in ("pandas", "csv") and not opts.get("defaults") and rng.random() < 0.4: opts["bypos"] = True
        return {"kind": "df", "cls": key, "via": via, "obj": o, "opts": opts}
    mode = rng.choice(["all", "all", "mix", "none"])
    if key in ("BV", "CM", "VM", "STT") and rng.random() < 0.4: opts["bypos"] = True
    o = {}
    if key == "BV":
        std = rng.random() < 0.5
        o["mat"] = fl([n, t])
        if std and n >= 2:      # a matrix that is exactly standardised: columns of +-1 with equal counts need even n; else (-1,0,1)-like patterns are not unit variance
            if n % 2 == 0:
                cols = []
                for j in range(t):
                    c = [1.0] * (n // 2) + [-1.0] * (n // 2); rng.shuffle(c); cols.append(c)
                o["mat"] = {"t": "f64", "sh": [n, t], "d": [fhex(cols[j][i]) for i in range(n) for j in range(t)]}
        o["location"] = grid([t]); o["scale"] = {"t": "f64", "sh": [t], "d": [fhex(rng.choice([0.5, 1.0, 2.0, 4.0, 0.25])) for _ in range(t)]}
        o["taxa"] = opt(rng, mode, lambda: g_labels(rng, n, csv)); o["taxa_grp"] = opt(rng, mode, lambda: g_int(rng, [n], 0, 3))
        o["trait"] = opt(rng, mode, lambda: g_labels(rng, t, csv))
        opts["unscale"] = rng.random() < 0.6
    elif key == "CM":
        o["mat"] = fl([n, n]); o["taxa"] = opt(rng, mode, lambda: g_labels(rng, n, csv)); o["taxa_grp"] = opt(rng, mode, lambda: g_int(rng, [n], 0, 3))
        opts["grp_col_anyway"] = rng.random() < 0.3
    elif key in ("VM", "STT"):
        srt = rng.random() < 0.6
        o["mat"] = fl([n, n, t]); o["taxa"] = opt(rng, mode, lambda: g_labels(rng, n, csv, sort=srt)); o["taxa_grp"] = opt(rng, mode, lambda: g_int(rng, [n], 0, 3))
        o["trait"] = opt(rng, mode, lambda: g_labels(rng, t, csv, sort=srt))
    else:
        q = rng.randint(1, 2); p = rng.randint(1, 4)
        o["beta"] = fl([q, t]); o["u_misc"] = opt(rng, mode, lambda: fl([rng.randint(0, 2), t])); o["u_a"] = fl([p, t])
        if key == "ADLGM": o["u_d"] = fl([p, t])
        o["trait"] = opt(rng, mode, lambda: g_labels(rng, t, csv))
        o["model_name"] = opt(rng, mode, lambda: {"t": "s", "v": rng.choice(["rrBLUP", "mödel"])})
        o["hyperparams"] = opt(rng, mode, lambda: {"t": "dict", "v": {"a": {"t": "float", "v": fhex(0.5)}}})
    return {"kind": "df", "cls": key, "via": via, "obj": o, "opts": opts}

def _fl(v): return [float.fromhex(x) for x in v["d"]]
def _close(a, b, rel=1e-9):
    return len(a) == len(b) and all((x == y) or (x != x and y != y) or abs(x - y) <= rel * (1 + abs(y)) for x, y in zip(a, b))
def _ulps(a, b, k=4):
    return len(a) == len(b) and all(x == y or abs(x - y) <= k * 2.0 ** -52 * max(abs(x), abs(y)) for x, y in zip(a, b))

def _long_float(x):
    """needs more than 15 significant digits to print"""
    return x == x and abs(x) != float("inf") and float("%.15g" % x) != x
LABEL_FIELDS = {"BV": ["taxa", "trait"], "CM": ["taxa"], "VM": ["taxa", "trait"], "STT": ["taxa", "trait"], "ALGM": ["trait"], "ADLGM": ["trait"], "SGMAP": [], "EGMAP": []}

def pred_df(case, out):
    key = case["cls"]; o = out["orig"]; b = out["back"]
    if "exc" in b: return ["reading back raised %s: %s" % (b["exc"], b["msg"])]
    bad = []
    diff = oeq(o, b)
    absent = [f for f in LABEL_FIELDS[key] if o[f] is None]
    # (1) labels that were present come back exactly; absent ones may only come back as None
    for f in LABEL_FIELDS[key] + (["taxa_grp"] if "taxa_grp" in o and key not in ("VM", "STT") else []):
        if f in diff and f not in absent and not (key in ("VM", "STT")):
            bad.append("label array %s not reproduced" % f)
    synth = [f for f in absent if f in diff]
    if synth: bad.append("[absent-labels] absent %s read back as synthesised labels" % ",".join(synth))
    rest = [f for f in diff if f not in synth]
    if key == "BV":
        n, t = o["mat"]["sh"]
        un = lambda v: [s * m + l for (m, s, l) in zip(_fl(v["mat"]), _fl(v["scale"]) * n, _fl(v["location"]) * n)]
        want = un(o) if case["opts"].get("unscale") else _fl(o["mat"])
        if b["mat"]["sh"] != [n, t] or not _close(un(b), want, 1e-9): bad.append("breeding values (unscaled through the returned location/scale) differ from the values written")
        if any(f in rest for f in ("mat", "location", "scale")):
            bad.append("[bv-location-scale] location/scale/mat not reproduced: from_pandas ignores location and scale and re-standardises (%s)" % ",".join(f for f in rest if f in ("mat", "location", "scale")))
        rest = [f for f in rest if f not in ("mat", "location", "scale")]
    elif key in ("VM", "STT"):
        def entries(v, taxa, trait):
            n = v["mat"]["sh"][0]; t = v["mat"]["sh"][2]; d = v["mat"]["d"]
            return {(taxa[i], taxa[j], trait[k]): d[(i * n + j) * t + k] for i in range(n) for j in range(n) for k in range(t)}
        n = o["mat"]["sh"][0]; t = o["mat"]["sh"][2]
        zt = math.ceil(math.log10(n)) + 1; zr = math.ceil(math.log10(t)) + 1
        if key == "STT": zt, zr = len(str(n)), len(str(t))          # DenseSquareTaxaTraitMatrix synthesises "Taxon" + str(i).zfill(len(str(n)))
        ot = o["taxa"]["d"] if o["taxa"] is not None else ["Taxon" + str(i).zfill(zt) for i in range(n)]
        otr = o["trait"]["d"] if o["trait"] is not None else ["Trait" + str(i).zfill(zr) for i in range(t)]
        if b["taxa"] is None or b["trait"] is None or b["mat"]["sh"] != [n, n, t]:
            bad.append("variance matrix read back with another shape or without labels")
        else:
            eo, eb = entries(o, ot, otr), entries(b, b["taxa"]["d"], b["trait"]["d"])
            csv = case["via"] == "csv"
            same = set(eo) == set(eb) and all(eo[k] == eb[k] or (csv and _ulps([float.fromhex(eo[k])], [float.fromhex(eb[k])], 64)) for k in eo)
            if not same: bad.append("variance entries differ as a labelled set (female, male, trait) -> value")
            if (o["taxa_grp"] is None) != (b["taxa_grp"] is None): bad.append("taxa_grp presence changed")
            elif o["taxa_grp"] is not None and dict(zip(ot, o["taxa_grp"]["d"])) != dict(zip(b["taxa"]["d"], b["taxa_grp"]["d"])): bad.append("taxon -> group assignment differs")
            moved = ot != b["taxa"]["d"] or otr != b["trait"]["d"]
            pos = [f for f in rest if f in ("mat", "taxa", "taxa_grp", "trait")]
            if moved and pos:
                bad.append("[vmat-sorted] positional layout not reproduced (labels re-sorted by the reader): %s" % ",".join(pos))
                rest = [f for f in rest if f not in ("mat", "taxa", "taxa_grp", "trait")]
            elif exact_pos_bits := [f for f in pos if f != "mat"]:
                bad.append("labels/groups differ although the label order is unchanged: %s" % ",".join(exact_pos_bits))
                rest = [f for f in rest if f not in exact_pos_bits]
        rest = [f for f in rest if f in ("mat",) or f not in ("taxa", "taxa_grp", "trait")]
    elif key in ("SGMAP", "EGMAP"):
        if case["opts"].get("defaults"):
            # default arguments on both sides: the writer's default unit is the centiMorgan, the reader's the Morgan, and the extended
            # reader takes no name / function-code column by default
            pos = [f for f in rest if f in ("vrnt_genpos", "spline")]
            x100 = b["vrnt_genpos"] is not None and _ulps(_fl(b["vrnt_genpos"]), [100.0 * x for x in _fl(o["vrnt_genpos"])], 2)
            lost = [f for f in rest if f in ("vrnt_name", "vrnt_fncode") and o[f] is not None and b[f] is None]
            if pos and x100:
                bad.append("[gmap-default-units] to_pandas()/from_pandas() with default arguments: genetic positions read back multiplied by 100 (written in cM, read as M)")
                rest = [f for f in rest if f not in pos]
            if lost:
                bad.append("[gmap-default-units] default arguments: %s not read back (from_pandas takes no such column by default)" % ",".join(lost))
                rest = [f for f in rest if f not in lost]
        # (marker names / function codes through to_egmap -> from_egmap and the spline_kind handed to the ExtendedGeneticMap reader were
        #  lost by the former code; both are repaired in the library, so a difference in them is an ordinary violation: "fields not reproduced")
        gp = [f for f in rest if f in ("vrnt_genpos", "spline")]
        if gp:
            ok = b["vrnt_genpos"] is not None and _ulps(_fl(b["vrnt_genpos"]), _fl(o["vrnt_genpos"]))
            if ok and b.get("spline") is not None and o.get("spline") is not None:
                ok = set(b["spline"]["v"]) == set(o["spline"]["v"]) and all(_ulps(_fl(b["spline"]["v"][k]), _fl(o["spline"]["v"][k])) for k in o["spline"]["v"])
            if not ok: bad.append("genetic positions differ by more than rounding")
            else: bad.append("[gmap-cM-rounding] genetic positions not bit-identical after the cM <-> M conversion 0.01*(100*x)")
        rest = [f for f in rest if f not in ("vrnt_genpos", "spline")]
    if case["via"] in ("csv", "egmap", "egmap_file"):
        fl = [f for f in rest if o[f] is not None and b[f] is not None and o[f]["t"] == "f64" and b[f]["t"] == "f64"
              and o[f]["sh"] == b[f]["sh"] and _ulps(_fl(o[f]), _fl(b[f]), 64)]
        if fl: bad.append("[csv-float-parse] %s differ in the last bits after to_csv/from_csv (pandas' default float parser is not round-trip exact)" % ",".join(fl))
        rest = [f for f in rest if f not in fl]
    if rest: bad.append("fields not reproduced: %s" % ",".join(rest))
    return bad

# ------------------------------------------------------------------------------------------------ h5py_File_write_dict directly
def run_wd(case):
    import h5py
    from pybrops.core.util.h5py import h5py_File_write_dict
    fn = _tmp(case, ".h5")
    if os.path.exists(fn): os.remove(fn)
    out = {"writes": [], "dumps": []}
    try:
        for d, ow in zip(case["dicts"], case["overwrite"]):
            try:
                with h5py.File(fn, "a") as h5:
                    h5py_File_write_dict(h5, case["group"], {k: mk(v) for k, v in d.items()}, ow)
                out["writes"].append(None)
            except Exception as e:
                out["writes"].append(_exc(e))
            out["dumps"].append(h5dump(fn) if os.path.exists(fn) else None)
    finally:
        if os.path.exists(fn): os.remove(fn)
    return out
_RUN["wd"] = run_wd

WD_KEYS = ["a", "b", "mat", "ü", "params", "taxa"]
def gen_wd(rng):
    n = rng.randint(1, 4)
    dicts = []
    is_dict = {k: rng.random() < 0.3 for k in WD_KEYS}            # a key is mostly data or mostly a dictionary ...
    for _ in range(n):
        d = {}
        for k in WD_KEYS:                                         # ... but now and then a dictionary replaces data or the reverse
            if rng.random() < 0.12: is_dict[k] = not is_dict[k]
        for k in rng.sample(WD_KEYS, rng.randint(1, 4)):
            r = rng.random()
            if r < 0.2: d[k] = None
            elif is_dict[k]:
                sub = {}
                for kk in rng.sample(["x", "y", "ζ"], rng.randint(0, 3)):
                    sub[kk] = None if rng.random() < 0.25 else rng.choice([lambda: g_f64(rng, [1]), lambda: {"t": "int", "v": rng.randint(0, 5)}, lambda: {"t": "s", "v": rng.choice(["x", "é"])}])()
                d[k] = {"t": "dict", "v": sub}
            elif r < 0.45:
                t = rng.choice(["i8", "i64", "b", "i64", "i32"])
                d[k] = g_int(rng, [rng.randint(1, 3)], 0 if t == "b" else -5, 1 if t == "b" else 5, t)
            elif r < 0.6: d[k] = g_f64(rng, [rng.randint(1, 2)])
            elif r < 0.75: d[k] = g_str(rng, rng.randint(1, 3))
            elif r < 0.87: d[k] = {"t": "s", "v": rng.choice(["x", "é/ü", ""])}
            else: d[k] = {"t": "int", "v": rng.randint(-3, 9)}
        dicts.append(d)
    ow = [rng.random() < 0.7 for _ in range(n)]
    if rng.random() < 0.25:            # only dictionary-valued keys, then the same keys again without overwrite: the nested call overwrites anyway
        k = rng.choice(WD_KEYS)
        sub = lambda: {"t": "dict", "v": {kk: g_f64(rng, [1]) for kk in rng.sample(["x", "y", "ζ"], rng.randint(1, 3))}}
        dicts = [{k: sub()}, {k: sub()}]; ow = [rng.random() < 0.5, False]
    return {"kind": "wd", "group": rng.choice(["", "g/", "a/b/", "ü/"]), "dicts": dicts, "overwrite": ow}

def e_item(v):
    if v is None: return "INone"
    if v["t"] == "dict":
        return "(IDict %s)" % E.lst(list(v["v"].items()), lambda kv: "(%s, %s)" % (zstr(kv[0]), "None" if kv[1] is None else "(Some (encode %s))" % e_sval(kv[1])))
    return "(match encode %s with Some d => IData d | None => IBad end)" % e_sval(v)
def emit_wd(case, out):
    steps = E.lst(list(zip(case["dicts"], case["overwrite"])),
                  lambda p: "(%s, %s)" % (E.lst(list(p[0].items()), lambda kv: "(%s, %s)" % (zstr(kv[0]), e_item(kv[1]))), E.b(p[1])))
    outs = E.lst(range(len(case["dicts"])), lambda i: "(%s, %s)" % (E.b(out["writes"][i] is not None), "None" if out["dumps"][i] is None else "(Some %s)" % e_dump(out["dumps"][i])))
    return "agree_wd VCur %s [] %s %s" % (zstr(case["group"]), steps, outs)
_EMIT["wd"] = emit_wd

def _leaves(d, pre=""):
    out = {}
    for k, v in d.items():
        if v is None: continue
        if v["t"] == "dict": out.update(_leaves(v["v"], pre + k + "/"))
        else: out[pre + k] = v
    return out
def pred_wd(case, out):
    """after a successful overwriting write the datasets below the keys of the dictionary are exactly its non-None leaves,
    with the values written (strings as UTF-8)"""
    bad = []
    g = _norm_group(case["group"]); pre = g + "/" if g else ""
    for i, (d, ow) in enumerate(zip(case["dicts"], case["overwrite"])):
        if not ow: continue
        if out["writes"][i] is not None:
            # writing below an existing dataset (a key that was data and is now a dictionary, or the reverse) is refused by HDF5 itself
            bad.append("[wd-raised] step %d: overwriting write raised %s" % (i, out["writes"][i]["exc"])); continue
        dump = out["dumps"][i]
        want = _leaves(d)
        have = {k[len(pre):]: v for k, v in dump.items() if v != "G" and k.startswith(pre) and k[len(pre):].split("/")[0] in d}
        for k, v in want.items():
            if k not in have: bad.append("step %d: %s missing from the file" % (i, k)); continue
            w = have[k]
            exp = ob(mk(v)) if v["t"] in NUMT else v
            if v["t"] in NUMT: ok = w == {kk: vv for kk, vv in exp.items() if kk != "sc"}
            elif v["t"] == "str": ok = w == {"t": "bytes", "d": [list(s.encode("utf-8")) for s in v["d"]]}
            elif v["t"] == "s": ok = w == {"t": "by", "v": list(v["v"].encode("utf-8"))}
            elif v["t"] == "int": ok = w == {"t": "i64", "sh": [], "d": [v["v"]]}
            elif v["t"] == "float": ok = w == {"t": "f64", "sh": [], "d": [fhex(float.fromhex(v["v"]))]}
            else: ok = False
            if not ok: bad.append("step %d: %s holds %s, written %s" % (i, k, json.dumps(w)[:80], json.dumps(v)[:80]))
        extra = sorted(set(have) - set(want))
        if extra:
            nested = all("/" in k for k in extra)
            bad.append(("[wd-stale-nested] " if nested else "") + "step %d: stale datasets below keys of the dictionary: %s" % (i, ",".join(extra)))
    return bad

# ------------------------------------------------------------------------------------------------ the typed readers, called directly
# (the persistable classes only reach part of them: no class stores a matrix that h5py_File_read_ndarray_int8 has to convert, none uses
#  h5py_File_read_ndarray_int).  The file is written with h5py itself, independently of pybrops' writer.
RD_FUNCS = {"RNd": "h5py_File_read_ndarray", "RNdUtf8": "h5py_File_read_ndarray_utf8", "RInt": "h5py_File_read_int", "RNdInt8": "h5py_File_read_ndarray_int8",
            "RNdInt": "h5py_File_read_ndarray_int", "RUtf8": "h5py_File_read_utf8"}
def _rd_domain(r, v):
    """is reader r defined on a dataset written from value v? (the domain on which the model is claimed; elsewhere only the predicate looks)"""
    t = v["t"]
    if r == "RNd": return True
    if r == "RNdUtf8": return t == "str"
    if r == "RInt": return t in ("i8", "i32", "i64", "b") and v["sh"] == []
    if r in ("RNdInt8", "RNdInt"): return t in ("i8", "i32", "i64", "b")
    if r == "RUtf8": return t in ("s", "by")
    return False

def gen_rd(rng):
    ds = {}
    for i in range(rng.randint(2, 5)):
        r = rng.random(); nm = rng.choice(["a", "m", "ü", "x1", "lab", "p/q"]) + str(i)
        if r < 0.45:
            t = rng.choice(["i8", "i32", "i64", "i64", "b"]); sh = rng.choice([[], [rng.randint(1, 3)], [2, rng.randint(1, 2)]])
            lo, hi = {"i8": (-128, 127), "i32": (-70000, 70000), "i64": (-10 ** 12, 10 ** 12), "b": (0, 1)}[t]
            v = g_int(rng, sh, lo, hi, t)
            if t != "b" and rng.random() < 0.5: v["d"] = [rng.choice([0, 1, -1, 127, 128, 200, 255, 256, -129, -130, 1000, lo, hi]) for _ in v["d"]]; v["d"] = [min(max(x, lo), hi) for x in v["d"]]
        elif r < 0.6: v = g_f64(rng, rng.choice([[], [2], [2, 2]]), special=False)
        elif r < 0.8: v = g_str(rng, rng.randint(1, 3))
        elif r < 0.92: v = {"t": "s", "v": rng.choice(["x", "é/ü", "", "日本", "rrBLUP"])}
        else: v = {"t": "by", "v": rng.choice([[114, 97, 119], [255, 1], [195, 164], []])}
        ds[nm] = v
    members = {}
    for k in rng.sample(["x", "y", "ζ", "kind", "n"], rng.randint(0, 4)):
        members[k] = rng.choice([lambda: g_f64(rng, [rng.randint(1, 2)], special=False), lambda: {"t": "int", "v": rng.randint(-5, 99)}, lambda: {"t": "float", "v": fhex(rng.choice(FLOATS[:9]))},
                                 lambda: {"t": "s", "v": rng.choice(["x", "é", "ridge", ""])}, lambda: {"t": "by", "v": rng.choice([[114, 97, 119], [255, 1]])},
                                 lambda: g_str(rng, 2), lambda: g_int(rng, [], 0, 9, rng.choice(["i8", "i64"]))])()
    return {"kind": "rd", "datasets": ds, "members": members, "group": rng.choice(["hp", "g/hp", "ü"])}

def run_rd(case):
    import h5py
    import pybrops.core.util.h5py as U
    fn = _tmp(case, ".h5")
    if os.path.exists(fn): os.remove(fn)
    out = {"reads": {}, "has": {}}
    try:
        with h5py.File(fn, "w") as h5:
            for nm, v in case["datasets"].items(): h5.create_dataset(nm, data=mk(v))
            g = h5.require_group(case["group"])
            for k, v in case["members"].items(): g.create_dataset(k, data=mk(v))
        out["dump"] = h5dump(fn)
        with h5py.File(fn, "r") as h5:
            for nm in case["datasets"]:
                for r, f in RD_FUNCS.items():
                    try: out["reads"]["%s|%s" % (nm, r)] = ob(getattr(U, f)(h5, nm))
                    except Exception as e: out["reads"]["%s|%s" % (nm, r)] = _exc(e)
            try: out["dict"] = ob(U.h5py_File_read_dict(h5, case["group"]))
            except Exception as e: out["dict"] = _exc(e)
            for nm in list(case["datasets"]) + [case["group"], "absent", case["group"] + "/absent"]:
                out["has"][nm] = bool(U.h5py_File_has_group(h5, nm))
            out["readable"] = bool(U.h5py_File_is_readable(h5)); out["writable"] = bool(U.h5py_File_is_writable(h5))
        with h5py.File(fn, "a") as h5: out["writable_a"] = bool(U.h5py_File_is_writable(h5))
    finally:
        if os.path.exists(fn): os.remove(fn)
    return out
_RUN["rd"] = run_rd

def _enc_json(v):
    """JSON value -> the dump form of the dataset h5py makes of it (as h5dump reports it)"""
    t = v["t"]
    if t in NUMT: return {k: x for k, x in ob(mk(v)).items() if k != "sc"}
    if t == "str": return {"t": "bytes", "d": [list(x.encode("utf-8")) for x in v["d"]]}
    if t == "s": return {"t": "by", "v": list(v["v"].encode("utf-8"))}
    if t == "by": return {"t": "bya", "v": list(v["v"])}
    if t == "int": return {"t": "i64", "sh": [], "d": [v["v"]]}
    if t == "float": return {"t": "f64", "sh": [], "d": [fhex(float.fromhex(v["v"]))]}
    raise ValueError(t)

def emit_rd(case, out):
    parts = []
    for nm, v in case["datasets"].items():
        d = e_dset(_enc_json(v))
        for r in RD_FUNCS:
            if not _rd_domain(r, v): continue
            o = out["reads"]["%s|%s" % (nm, r)]
            try: res = "None" if "exc" in o else "(Some %s)" % e_sval(o)
            except ValueError: return "false"
            parts.append("agree_rd %s %s %s" % (r, d, res))
    o = out["dict"]
    if "exc" in o: res = "None"
    else:
        try: res = "(Some %s)" % E.lst(sorted(o["v"].items()), lambda kv: "(%s, %s)" % (zstr(kv[0]), E.opt(kv[1], e_sval)))
        except ValueError: return "false"
    parts.append("agree_rdict %s %s %s" % (e_dump(out["dump"]), zstr(case["group"]), res))
    return "forallb (fun b : bool => b) %s" % E.lst(parts, str)
_EMIT["rd"] = emit_rd

def _wrap8(x): return (x + 128) % 256 - 128
def pred_rd(case, out):
    """every reader returns the stored value in the type its name promises"""
    bad = []
    for nm, v in case["datasets"].items():
        t = v["t"]; get = lambda r: out["reads"]["%s|%s" % (nm, r)]
        def want(r, exp):
            o = get(r)
            if "exc" in o: bad.append("%s(%s) raised %s: %s" % (RD_FUNCS[r], nm, o["exc"], o["msg"][:80]))
            elif not ({k: x for k, x in o.items() if k != "sc"} == exp): bad.append("%s(%s) returned %s, stored %s" % (RD_FUNCS[r], nm, json.dumps(o)[:90], json.dumps(v)[:90]))
        want("RNd", {"str": lambda: _enc_json(v), "s": lambda: {"t": "by", "v": list(v["v"].encode("utf-8"))}, "by": lambda: {"t": "by", "v": list(v["v"])}}.get(t, lambda: _enc_json(v))())
        if t == "str": want("RNdUtf8", {"t": "str", "d": v["d"]})
        if t in ("i8", "i32", "i64", "b"):
            want("RNdInt", {"t": "i64", "sh": v["sh"], "d": [int(x) for x in v["d"]]})
            want("RNdInt8", {"t": "i8", "sh": v["sh"], "d": [_wrap8(int(x)) for x in v["d"]]})
            if v["sh"] == []: want("RInt", {"t": "int", "v": int(v["d"][0])})
        if t == "s": want("RUtf8", {"t": "s", "v": v["v"]})
        if t == "by":
            try: exp = {"t": "s", "v": bytes(v["v"]).decode("utf-8")}
            except UnicodeDecodeError: exp = None
            if exp is not None: want("RUtf8", exp)
            elif "exc" not in get("RUtf8"): bad.append("h5py_File_read_utf8(%s) decoded invalid UTF-8" % nm)
    o = out["dict"]
    if "exc" in o: bad.append("h5py_File_read_dict raised %s: %s" % (o["exc"], o["msg"][:80]))
    else:
        wantd = {}
        for k, v in case["members"].items():
            wantd[k] = v if v["t"] in ("s", "by") else ({"t": "bytes", "d": [list(x.encode("utf-8")) for x in v["d"]]} if v["t"] == "str" else _enc_json(v))
        got = {k: ({kk: x for kk, x in vv.items() if kk != "sc"} if isinstance(vv, dict) else vv) for k, vv in o["v"].items()}
        if got != wantd: bad.append("h5py_File_read_dict returned %s, stored %s" % (json.dumps(got)[:120], json.dumps(wantd)[:120]))
    for nm, h in out["has"].items():
        if h != (not nm.endswith("absent")): bad.append("h5py_File_has_group(%s) = %s" % (nm, h))
    if not (out["readable"] and not out["writable"] and out["writable_a"]): bad.append("h5py_File_is_readable/is_writable wrong for modes r / a")
    return bad


# ------------------------------------------------------------------------------------------------ several objects in ONE file
# A history of to_hdf5 calls of objects of DIFFERENT classes under different group paths of one file (nested: 'a' and 'a/b';
# sibling prefixes: 'a/b' and 'a/bc'; the root), interleaved, the file handed over by name (str / pathlib.Path) or as an open
# h5py.File, overwrite both ways.  After EVERY write the whole file is listed and every location written so far is read back.
MGROUPS = ["a", "a/b", "a/bc", "a/b/c", "x", "/abs/x", "données/ü", "x/y/z", "a/bcd", "ab", None]
MG_SPELL = {"a/b": ["a/b", "a/b/", "a//b", "/a/b"], "a/bc": ["a/bc", "a/bc/"], "a": ["a", "a/", "/a"], "x": ["x", "x/"]}
MPAIRS = [("a/b", "a/bc"), ("a", "a/b"), ("a/b", "a/b/c"), ("a/bc", "a/b"), ("a/b", "a"), ("x", "x/y/z"), ("a", "ab"), ("a/bc", "a/bcd"), (None, "a/b"),
          ("ab", "a"), ("a/bcd", "a/bc"), ("a/b/c", "a/b"), ("x/y/z", "x")]
HOWS_W = ["str", "path", "handle"]

def _no_none_members(o):
    h = o.get("hyperparams")
    if h is not None: h["v"] = {k: v for k, v in h["v"].items() if v is not None}      # (a None member is the known finding of the h5 cases)
    return o

def gen_mh5(rng, key=None, i=0):
    key = key or rng.choice(H5_CLASSES)
    nloc = rng.randint(2, 4)
    first = list(MPAIRS[(i + H5_CLASSES.index(key)) % len(MPAIRS)]) if rng.random() < 0.85 else []
    pool = [g for g in MGROUPS if g not in first]; rng.shuffle(pool)
    groups = (first + pool)[:nloc]
    # location 1 holds the class under test; it is written BY NAME after location 0 has been written
    classes = [rng.choice(H5_CLASSES) for _ in groups]; classes[1] = key
    ntr = [rng.randint(1, 3) for _ in groups]
    def step(l, ow=None, how=None):
        o = _no_none_members(gen_obj(rng, classes[l]))
        if classes[l] == "GE":
            o["_ntrait"] = ntr[l]
            for f in ("var_env", "var_rep", "var_err"):
                if o.get(f) is not None: o[f] = g_f64(rng, [ntr[l]], nonneg=True)
        g = groups[l]
        return {"loc": l, "cls": classes[l], "group": rng.choice(MG_SPELL.get(g, [g])), "obj": o,
                "ow": (rng.random() < 0.8) if ow is None else ow, "how": how or rng.choice(HOWS_W), "rd": rng.choice(HOWS_W)}
    steps = [step(0), step(1, ow=(i % 4 != 3), how=["str", "path"][i % 2])]
    if nloc > 2: steps.append(step(2))
    steps.append(step(1, ow=True, how=["handle", "handle", "path", "str"][(i // 2) % 4]))      # the same class again, now mostly through an open handle
    for _ in range(rng.randint(0, 2)): steps.append(step(rng.randrange(nloc)))
    return {"kind": "mh5", "cls": key, "steps": steps}

def _open_arg(fn, how):
    from pathlib import Path
    return Path(fn) if how == "path" else fn

def run_mh5(case):
    import h5py, gc
    fn = _tmp(case, ".h5")
    if os.path.exists(fn): os.remove(fn)
    out = {"orig": [], "writes": [], "dumps": [], "reads": []}
    seen = {}                                   # location -> (class key, group spelling of the latest call, ntrait)
    try:
        for st in case["steps"]:
            key = st["cls"]; o = build(key, st["obj"])
            out["orig"].append(observe(key, o))
            try:
                if st["how"] == "handle":
                    with h5py.File(fn, "a") as h5: o.to_hdf5(h5, st["group"], st["ow"])
                else:
                    o.to_hdf5(_open_arg(fn, st["how"]), st["group"], st["ow"])
                out["writes"].append(None)
            except Exception as e:
                out["writes"].append(_exc(e)); gc.collect()
            seen[_norm_group(st["group"])] = (key, st["group"], st["obj"].get("_ntrait", 0))
            out["dumps"].append(h5dump(fn) if os.path.exists(fn) else None)
            rd = {}
            for loc, (k, g, nt) in seen.items():
                try:
                    kw = {"gpmod": gpmod_for(nt)} if k == "GE" else {}
                    if st["rd"] == "handle":
                        with h5py.File(fn, "r") as h5: r = klass(k).from_hdf5(h5, g, **kw)
                    else:
                        r = klass(k).from_hdf5(_open_arg(fn, st["rd"]), g, **kw)
                    rd[loc] = {"cls": k, "group": g, "nt": nt, "obj": observe(k, r)}
                except Exception as e:
                    rd[loc] = {"cls": k, "group": g, "nt": nt, "obj": _exc(e)}; gc.collect()
            out["reads"].append(rd)
    finally:
        if os.path.exists(fn): os.remove(fn)
    return out
_RUN["mh5"] = run_mh5

def emit_mh5(case, out):
    def e_g(g): return "None" if g is None else "(Some %s)" % zstr(g)
    steps = E.lst(list(zip(case["steps"], out["orig"])),
                  lambda p: "(spec_%s, %s, %s, %s, %s, %s)" % (p[0]["cls"], Z(p[0]["obj"].get("_ntrait", 0)), e_g(p[0]["group"]), e_obj(p[1], attrs(p[0]["cls"])),
                                                             E.b(p[0]["ow"]), E.b(p[0]["how"] != "handle")))
    def so(i):
        d = out["dumps"][i]
        rds = E.lst(sorted(out["reads"][i].items()),
                    lambda kv: "(spec_%s, %s, %s, %s)" % (kv[1]["cls"], Z(kv[1]["nt"]), e_g(kv[1]["group"]),
                                                         "None" if "exc" in kv[1]["obj"] else "(Some %s)" % e_obj(kv[1]["obj"], attrs(kv[1]["cls"]))))
        return "(%s, %s, %s)" % (E.b(out["writes"][i] is not None), "None" if d is None else "(Some %s)" % e_dump(d), rds)
    return "agree_mh5 false [] %s %s" % (steps, E.lst(range(len(case["steps"])), so))
_EMIT["mh5"] = emit_mh5

def pred_mh5(case, out):
    """after EVERY write, every location holds the last object successfully written there (read back with its own class) and the
    file holds exactly the datasets of those objects: a write under one group leaves everything outside that group alone"""
    bad = []
    last = {}                                   # location -> index of the last successful write
    for i, st in enumerate(case["steps"]):
        loc = _norm_group(st["group"]); w = out["writes"][i]
        what = "step %d (%s to %r, file by %s, overwrite=%s)" % (i, st["cls"], st["group"], st["how"], st["ow"])
        if w is None: last[loc] = i
        elif st["ow"] or loc not in last:
            bad.append("%s: to_hdf5 raised %s: %s" % (what, w["exc"], w["msg"][:120]))
        want = set()
        for l, j in sorted(last.items()):
            sj = case["steps"][j]
            r = out["reads"][i].get(l, {}).get("obj")
            if r is None: bad.append("%s: location %r was not read" % (what, l)); continue
            who = "the %s written to %r at step %d" % (sj["cls"], l, j)
            if "exc" in r: bad.append("%s: %s can no longer be read: %s: %s" % (what, who, r["exc"], r["msg"][:100]))
            else:
                d = oeq(out["orig"][j], r)
                if d: bad.append("%s: %s reads back different in %s" % (what, who, ",".join(d)))
            pre = l + "/" if l else ""
            want |= {pre + k for k in _flat_keys(out["orig"][j]) if k.split("/")[0] in WRITTEN_KEYS[sj["cls"]]}
        dump = out["dumps"][i]
        if dump is None:
            if want: bad.append("%s: the file does not exist" % what)
            continue
        have = {k for k, v in dump.items() if v != "G"}
        # a refused (overwrite=False) write may have created the fields the location lacked before it met an existing one
        loose = {_norm_group(s["group"]) for s, w2 in zip(case["steps"][:i + 1], out["writes"][:i + 1]) if w2 is not None}
        extra = {k for k in have - want if not any((k + "/").startswith(l + "/") or l == "" for l in loose)}
        if extra: bad.append("%s: datasets in the file that belong to no object written: %s" % (what, ",".join(sorted(extra))[:160]))
        miss = want - have
        if miss: bad.append("%s: datasets of objects written earlier are gone from the file: %s" % (what, ",".join(sorted(miss))[:160]))
    return bad

# ------------------------------------------------------------------------------------------------ shrinking
_KEEP = {"mat", "beta", "u_a", "u_d", "nenv", "nrep", "location", "scale", "ploidy", "vrnt_chrgrp", "vrnt_phypos", "vrnt_genpos", "vrnt_stop"}
def shrink(case, fails):
    """drop leading writes, then optional fields / metadata / grouping requests, while the predicate still fails"""
    cur = _copy.deepcopy(case)
    def attempt(c):
        try: return bool(fails(c))
        except Exception: return False
    if cur["kind"] == "h5":
        while len(cur["objs"]) > 1:
            t = _copy.deepcopy(cur); t["objs"] = t["objs"][1:]; t["overwrite"] = t["overwrite"][1:]
            if attempt(t): cur = t
            else: break
        objs = cur["objs"]
    elif cur["kind"] in ("copy", "df"): objs = [cur["obj"]]
    elif cur["kind"] == "vcf":
        j = 0
        while len(cur["records"]) > 1 and j < len(cur["records"]):
            t = _copy.deepcopy(cur); del t["records"][j]
            if attempt(t): cur = t
            else: j += 1
        return cur
    elif cur["kind"] == "mh5":
        j = len(cur["steps"]) - 1
        while j >= 0 and len(cur["steps"]) > 1:
            t = _copy.deepcopy(cur); del t["steps"][j]
            if attempt(t): cur = t
            j -= 1
        return cur
    elif cur["kind"] == "wd":
        while len(cur["dicts"]) > 1:
            t = _copy.deepcopy(cur); t["dicts"] = t["dicts"][1:]; t["overwrite"] = t["overwrite"][1:]
            if attempt(t): cur = t
            else: break
        return cur
    else: return cur
    for i in range(len(objs)):
        for k in list(objs[i].keys()):
            if k in _KEEP or k.startswith("_n"): continue
            t = _copy.deepcopy(cur)
            tob = t["objs"][i] if cur["kind"] == "h5" else t["obj"]
            if k == "_group": tob.pop("_group")
            elif tob.get(k) is None: continue
            else: tob[k] = None
            if attempt(t):
                cur = t
                objs = cur["objs"] if cur["kind"] == "h5" else [cur["obj"]]
    return cur
