"""C16 — saving, loading and copying reproduce objects exactly.
Correspondence between Model/C16_*.v and the HDF5 / data-frame / CSV / VCF / copy code of pybrops, plus the
independent predicate (round trip = identity on the observable state, stated on the implementation's outputs)."""
import os, sys, json, struct, hashlib, copy as _copy, math, io, warnings
from fractions import Fraction
import numpy
import coqemit as E

ID = "C16"
PROPS = "Props/C16.v"
IMPORTS = "From Coq Require Import String.\nFrom PV Require Import Lib.Common Lib.C16_Spec Model.C16_Store Gen.C16_Fields."
SHARD = 40
SERIAL = False
LEVEL_TEXT = "TODO"
LEVEL_NOTE = "TODO"
TECHNIQUE = "Coq proof over executable store/codec/heap models; in-Coq vm_compute correspondence with the implementation; ast-generated field tables"
RULE = "TODO"
TRUSTED = []
ASSUMPTIONS = []

import boot
BUILD = os.path.join(boot.VERIF, "build", "C16")

# ------------------------------------------------------------------------------------------------ values
# JSON value forms (both for specs and for observed attributes):
#   None
#   {"t": "i8|i32|i64|b|f64", "sh": [...], "d": [ints | hex floats]}      numpy array / numpy scalar (sh == [])
#   {"t": "str", "d": [str,...]}                                              1-D object array of str
#   {"t": "bytes", "d": [[byte,...],...]}                                     1-D object array of bytes
#   {"t": "obj", "d": [repr,...]}                                             1-D object array of something else
#   {"t": "int", "v": n}  {"t": "float", "v": hex}  {"t": "s", "v": str}  {"t": "by", "v": [bytes]}    python scalars
#   {"t": "dict", "v": {key: value}}
NUMT = {"i8": "int8", "i32": "int32", "i64": "int64", "b": "bool", "f64": "float64"}
TNUM = {v: k for k, v in NUMT.items()}

def fbits(x):
    return struct.unpack(">Q", struct.pack(">d", float(x)))[0]
def fhex(x): return float(x).hex()

def mk(v):
    """JSON value -> python/numpy value"""
    if v is None: return None
    t = v["t"]
    if t in NUMT:
        d = [float.fromhex(x) for x in v["d"]] if t == "f64" else v["d"]
        a = numpy.array(d, dtype=NUMT[t]).reshape(v["sh"])
        return a
    if t == "str": return numpy.array(v["d"], dtype=object) if v["d"] else numpy.empty(0, dtype=object)
    if t == "int": return int(v["v"])
    if t == "float": return float.fromhex(v["v"])
    if t == "s": return v["v"]
    if t == "dict": return {k: mk(x) for k, x in v["v"].items()}
    raise ValueError(t)

def ob(x):
    """python/numpy value -> JSON value (the observable state)"""
    if x is None: return None
    if isinstance(x, (bool, numpy.bool_)) and not isinstance(x, numpy.ndarray):
        return {"t": "b", "sh": [], "d": [int(bool(x))]} if isinstance(x, numpy.bool_) else {"t": "pybool", "v": bool(x)}
    if isinstance(x, numpy.ndarray) or isinstance(x, numpy.generic):
        a = numpy.asarray(x)
        dt = str(a.dtype)
        if dt in TNUM:
            t = TNUM[dt]
            flat = a.reshape(-1).tolist() if a.size else []
            if t == "f64": flat = [fhex(y) for y in flat]
            elif t == "b": flat = [int(y) for y in flat]
            out = {"t": t, "sh": list(a.shape), "d": flat}
            if isinstance(x, numpy.generic): out["sc"] = 1          # numpy scalar rather than 0-d array (not distinguished by eq)
            return out
        if a.dtype == object and a.ndim == 1:
            items = a.tolist()
            if all(isinstance(s, str) for s in items): return {"t": "str", "d": items}
            if all(isinstance(s, bytes) for s in items): return {"t": "bytes", "d": [list(s) for s in items]}
            return {"t": "obj", "d": [repr(s) for s in items]}
        return {"t": "other", "v": "%s%s" % (dt, list(a.shape)), "d": repr(a.tolist())[:200]}
    if isinstance(x, int): return {"t": "int", "v": int(x)}
    if isinstance(x, float): return {"t": "float", "v": fhex(x)}
    if isinstance(x, str): return {"t": "s", "v": x}
    if isinstance(x, bytes): return {"t": "by", "v": list(x)}
    if isinstance(x, dict): return {"t": "dict", "v": {str(k): ob(v) for k, v in x.items()}}
    return {"t": "other", "v": type(x).__name__, "d": repr(x)[:200]}

def veq(a, b):
    """observable equality of two JSON values: same None-ness, kind, dtype, shape, bit-identical data"""
    if a is None or b is None: return a is None and b is None
    if a["t"] != b["t"]:
        # a python int and a numpy integer scalar of the same value are observably equal; same for floats
        ka, kb = _scalar(a), _scalar(b)
        return ka is not None and ka == kb
    if a["t"] == "dict":
        return set(a["v"]) == set(b["v"]) and all(veq(a["v"][k], b["v"][k]) for k in a["v"])
    ka = {k: v for k, v in a.items() if k != "sc"}; kb = {k: v for k, v in b.items() if k != "sc"}
    return ka == kb
def _scalar(v):
    if v["t"] == "int": return ("i", v["v"])
    if v["t"] in ("i8", "i32", "i64") and v["sh"] == []: return ("i", v["d"][0])
    if v["t"] == "float": return ("f", fbits(float.fromhex(v["v"])))
    if v["t"] == "f64" and v["sh"] == []: return ("f", fbits(float.fromhex(v["d"][0])))
    if v["t"] == "s": return ("s", v["v"])
    return None

def oeq(a, b, skip=()):
    """field-wise comparison of two observed objects -> list of differing fields"""
    bad = []
    for k in sorted(set(a) | set(b)):
        if k in skip: continue
        if k not in a or k not in b or not veq(a[k], b[k]): bad.append(k)
    return bad

# ------------------------------------------------------------------------------------------------ classes
TAXA_META = ["taxa_grp_name", "taxa_grp_stix", "taxa_grp_spix", "taxa_grp_len"]
VRNT_META = ["vrnt_chrgrp_name", "vrnt_chrgrp_stix", "vrnt_chrgrp_spix", "vrnt_chrgrp_len"]
VRNT = ["vrnt_chrgrp", "vrnt_phypos", "vrnt_name", "vrnt_genpos", "vrnt_xoprob", "vrnt_hapgrp", "vrnt_hapalt", "vrnt_hapref", "vrnt_mask"]
# key -> (module, class name, constructor fields, metadata fields set after construction, extra observed attributes)
CLS = {
    "DM":    ("pybrops.core.mat.DenseMatrix", "DenseMatrix", ["mat"], [], []),
    "TM":    ("pybrops.core.mat.DenseTaxaMatrix", "DenseTaxaMatrix", ["mat", "taxa", "taxa_grp"], TAXA_META, []),
    "VrM":   ("pybrops.core.mat.DenseVariantMatrix", "DenseVariantMatrix", ["mat"] + VRNT, VRNT_META, []),
    "GM":    ("pybrops.popgen.gmat.DenseGenotypeMatrix", "DenseGenotypeMatrix", ["mat", "taxa", "taxa_grp"] + VRNT + ["ploidy"], TAXA_META + VRNT_META, []),
    "PGM":   ("pybrops.popgen.gmat.DensePhasedGenotypeMatrix", "DensePhasedGenotypeMatrix", ["mat", "taxa", "taxa_grp"] + VRNT, TAXA_META + VRNT_META, ["ploidy"]),
    "BV":    ("pybrops.popgen.bvmat.DenseBreedingValueMatrix", "DenseBreedingValueMatrix", ["mat", "location", "scale", "taxa", "taxa_grp", "trait"], TAXA_META, []),
    "CM":    ("pybrops.popgen.cmat.DenseMolecularCoancestryMatrix", "DenseMolecularCoancestryMatrix", ["mat", "taxa", "taxa_grp"], TAXA_META, []),
    "STT":   ("pybrops.core.mat.DenseSquareTaxaTraitMatrix", "DenseSquareTaxaTraitMatrix", ["mat", "taxa", "taxa_grp", "trait"], TAXA_META, []),
    "VM":    ("pybrops.model.vmat.DenseTwoWayDHAdditiveGeneticVarianceMatrix", "DenseTwoWayDHAdditiveGeneticVarianceMatrix", ["mat", "taxa", "taxa_grp", "trait"], TAXA_META, []),
    "ALGM":  ("pybrops.model.gmod.DenseAdditiveLinearGenomicModel", "DenseAdditiveLinearGenomicModel", ["beta", "u_misc", "u_a", "trait", "model_name", "hyperparams"], [], []),
    "ADLGM": ("pybrops.model.gmod.DenseAdditiveDominanceLinearGenomicModel", "DenseAdditiveDominanceLinearGenomicModel", ["beta", "u_misc", "u_a", "u_d", "trait", "model_name", "hyperparams"], [], []),
    "GE":    ("pybrops.breed.prot.pt.G_E_Phenotyping", "G_E_Phenotyping", ["nenv", "nrep", "var_env", "var_rep", "var_err"], [], []),
    "SGMAP": ("pybrops.popgen.gmap.StandardGeneticMap", "StandardGeneticMap", ["vrnt_chrgrp", "vrnt_phypos", "vrnt_genpos"], VRNT_META, ["spline_kind", "spline_fill_value"]),
    "EGMAP": ("pybrops.popgen.gmap.ExtendedGeneticMap", "ExtendedGeneticMap", ["vrnt_chrgrp", "vrnt_phypos", "vrnt_stop", "vrnt_genpos", "vrnt_name", "vrnt_fncode"], VRNT_META, ["spline_kind", "spline_fill_value"]),
}
H5_CLASSES = ["DM", "TM", "VrM", "GM", "PGM", "BV", "CM", "STT", "VM", "ALGM", "ADLGM", "GE"]

def klass(key):
    import importlib
    m, c = CLS[key][0], CLS[key][1]
    return getattr(importlib.import_module(m), c)

def attrs(key):
    return CLS[key][2] + CLS[key][3] + CLS[key][4]

_GPMOD = {}
def gpmod_for(ntrait):
    """a fixed genomic model bound to G_E_Phenotyping objects (not persisted by to_hdf5)"""
    ALGM = klass("ALGM")
    return ALGM(beta=numpy.zeros((1, ntrait)), u_misc=None, u_a=numpy.ones((2, ntrait)), trait=None, model_name="gp", hyperparams=None)

def build(key, spec):
    """object spec (field -> JSON value, plus optional "_group": [axes], "_ntrait") -> instance"""
    cls = klass(key)
    kw = {f: mk(spec.get(f)) for f in CLS[key][2] if f in spec}
    if key == "GE":
        kw["gpmod"] = gpmod_for(spec["_ntrait"])
        for f in ("var_env", "var_rep", "var_err"): kw.setdefault(f, None)
    if key in ("SGMAP", "EGMAP"):
        kw["auto_group"] = bool(spec.get("_auto_group", True)); kw["auto_build_spline"] = bool(spec.get("_spline", True))
    o = cls(**kw)
    for f in CLS[key][3]:
        if f in spec: setattr(o, f, mk(spec[f]))
    for ax in spec.get("_group", []):
        if ax == "taxa": o.group_taxa() if hasattr(o, "group_taxa") else o.group()
        elif ax == "vrnt": o.group_vrnt()
    return o

def observe(key, o):
    return {f: ob(getattr(o, f)) for f in attrs(key)}

# ------------------------------------------------------------------------------------------------ HDF5
def h5dump(fn):
    import h5py
    out = {}
    with h5py.File(fn, "r") as f:
        def v(name, obj):
            if isinstance(obj, h5py.Dataset):
                val = obj[()]
                if obj.dtype == object or h5py.check_string_dtype(obj.dtype) is not None:
                    if obj.shape == (): out[name] = {"t": "by", "v": list(val)}
                    else: out[name] = {"t": "bytes", "d": [list(s) for s in val.tolist()]}
                else:
                    out[name] = ob(numpy.asarray(val)); out[name].pop("sc", None)
            else:
                out[name] = "G"
        f.visititems(v)
    return out

def _tmp(case, suffix):
    os.makedirs(BUILD, exist_ok=True)
    h = hashlib.sha256(json.dumps(case, sort_keys=True, default=str).encode()).hexdigest()[:16]
    return os.path.join(BUILD, "t_%s_%d%s" % (h, os.getpid(), suffix))

def _exc(e):
    return {"exc": type(e).__name__, "msg": str(e)[:200]}

def run_h5(case):
    import h5py
    key = case["cls"]; cls = klass(key)
    fn = _tmp(case, ".h5")
    if os.path.exists(fn): os.remove(fn)
    grp = case["group"]
    out = {"orig": [], "writes": [], "reads": [], "dumps": []}
    try:
        for spec, ow in zip(case["objs"], case["overwrite"]):
            o = build(key, spec)
            out["orig"].append(observe(key, o))
            try:
                if case.get("handle"):
                    with h5py.File(fn, "a") as h5: o.to_hdf5(h5, grp, ow)
                else:
                    o.to_hdf5(fn, grp, ow)
                out["writes"].append(None)
            except Exception as e:
                out["writes"].append(_exc(e))
                import gc; gc.collect()
            out["dumps"].append(h5dump(fn) if os.path.exists(fn) else None)
            try:
                kw = {"gpmod": gpmod_for(spec["_ntrait"])} if key == "GE" else {}
                if case.get("handle"):
                    with h5py.File(fn, "r") as h5: r = cls.from_hdf5(h5, grp, **kw)
                else:
                    r = cls.from_hdf5(fn, grp, **kw)
                out["reads"].append(observe(key, r))
            except Exception as e:
                out["reads"].append(_exc(e))
                import gc; gc.collect()
    finally:
        if os.path.exists(fn): os.remove(fn)
    return out

def run_impl(case):
    with warnings.catch_warnings():
        warnings.simplefilter("ignore")
        return {"h5": run_h5}[case["kind"]](case)

# ------------------------------------------------------------------------------------------------ Coq emission
Z = E.z
def zstr(s): return "[" + "; ".join(str(ord(c)) for c in s) + "]%Z" if s else "[]"
def zbytes(b): return "[" + "; ".join(str(int(c)) for c in b) + "]%Z" if b else "[]"
def zl(xs): return "[" + "; ".join(("(%d)" % x) if x < 0 else str(x) for x in xs) + "]%Z" if xs else "[]"
DT = {"i8": "TI8", "i32": "TI32", "i64": "TI64", "b": "TBool", "f64": "TF64"}
def _data(v):
    return [fbits(float.fromhex(x)) for x in v["d"]] if v["t"] == "f64" else [int(x) for x in v["d"]]
def e_sval(v):
    t = v["t"]
    if t in DT: return "(VArr %s %s %s)" % (DT[t], zl(v["sh"]), zl(_data(v)))
    if t == "str": return "(VStrs %s)" % E.lst(v["d"], zstr)
    if t == "bytes": return "(VBytess %s)" % E.lst(v["d"], zbytes)
    if t == "int": return "(VInt %s)" % Z(v["v"])
    if t == "float": return "(VFloat %s)" % Z(fbits(float.fromhex(v["v"])))
    if t == "s": return "(VStr %s)" % zstr(v["v"])
    if t == "by": return "(VBytes %s)" % zbytes(v["v"])
    raise ValueError("value of kind %r has no model counterpart" % t)
def e_oval(v):
    if v["t"] == "dict":
        return "(OD %s)" % E.lst(sorted(v["v"].items()), lambda kv: "(%s, %s)" % (zstr(kv[0]), E.opt(kv[1], e_sval)))
    return "(OS %s)" % e_sval(v)
def e_obj(o, order):
    return E.lst([k for k in order if k in o], lambda k: "(%s, %s)" % (E.s(k), E.opt(o[k], e_oval)))
def e_dset(v):
    t = v["t"]
    if t in DT: return "(DArr %s %s %s)" % (DT[t], zl(v["sh"]), zl(_data(v)))
    if t == "bytes": return "(DStrs %s)" % E.lst(v["d"], zbytes)
    if t == "by": return "(DStr %s)" % zbytes(v["v"])
    raise ValueError("dataset of kind %r has no model counterpart" % t)
def e_dump(d):
    return E.lst(sorted(d.items()), lambda kv: "(%s, %s)" % (zstr(kv[0]), "None" if kv[1] == "G" else "(Some %s)" % e_dset(kv[1])))

def emit_h5(case, out):
    key = case["cls"]; order = attrs(key)
    nt = case["objs"][0].get("_ntrait", 0)
    steps = E.lst(list(zip(out["orig"], case["overwrite"])), lambda p: "(%s, %s)" % (e_obj(p[0], order), E.b(p[1])))
    def so(i):
        w = out["writes"][i] is not None
        d = out["dumps"][i]
        r = out["reads"][i]
        return "(%s, %s, %s)" % (E.b(w), "None" if d is None else "(Some %s)" % e_dump(d),
                                 "None" if "exc" in r else "(Some %s)" % e_obj(r, order))
    outs = E.lst(range(len(out["orig"])), so)
    g = case["group"]
    return "agree_h5 true spec_%s %s %s [] %s %s" % (key, Z(nt), "None" if g is None else "(Some %s)" % zstr(g), steps, outs)

def emit_case(case, out):
    if "exc" in out: return "false"
    return {"h5": emit_h5}[case["kind"]](case, out)

# ------------------------------------------------------------------------------------------------ translator hook
def translate(repo, gen_dir):
    sys.path.insert(0, os.path.join(os.path.dirname(os.path.dirname(os.path.abspath(__file__))), "translate"))
    import c16_fields
    classes = [(k, klass(k), list(CLS[k][3])) for k in CLS]
    recs, path = c16_fields.generate(classes, gen_dir)
    return [{"table": "Gen/C16_Fields.v", "classes": len(recs),
             "written_keys": sum(len(r["written"]) for r in recs), "copied_attrs": sum(len(r["cp_ctor"]) + len(r["cp_post"]) for r in recs)}]
