"""C01 — Mendelian fidelity of the mating protocols: correspondence between Model/C01_Meiosis.v + Model/C01_Mating.v and
pybrops.breed.prot.mate.{util, SelfCross, TwoWay(DH)Cross, ThreeWay(DH)Cross, FourWay(DH)Cross}, pybrops.core.util.mate,
plus the independent predicate (provenance tracing on the implementation's outputs)."""
import struct
from fractions import Fraction
import numpy
import coqemit as E
from rngscript import Scripted, ScriptExhausted

ID = "C01"
PROPS = "Props/C01.v"
IMPORTS = "From PV Require Import Lib.Common Model.C01_Meiosis Model.C01_Mating."
SHARD = 25
LEVEL_TEXT = ("Coq theorems over an executable model of meiosis and of the seven mating protocols, for all genotype arrays, cross tables, "
              "per-cross counts, selfing depths, crossover-probability vectors and draws: every chromosome copy of every progeny is a "
              "left-to-right mosaic of the two copies of the individual designated by a separately written pedigree specification "
              "(founder or intermediate hybrid, recursively), the source copy changes only where the crossover probability is positive, "
              "every allele comes from a founder of the cross row at the same marker; progeny count = sum nmating*nprogeny, family labels and "
              "names follow the repeat pattern (as a permutation in general, in order while names fit the 7-digit zero-fill: _partial + _refuted), counters advance "
              "exactly, DH progeny are homozygous, marker metadata except vrnt_hapalt/vrnt_hapref is handed over (_partial + _refuted); the line-by-line "
              "segment-copy loop equals the per-marker reading. The model is tied to the code by evaluating it inside Coq on generated inputs with scripted draws "
              "against the outputs of all seven protocols and of mat_*/dense_* (exact equality of every output array). Independently of the sampled "
              "cases, Gen/C01_Kernel.v is regenerated from the source on every run (the crossover test rnd < xoprob, the index expressions, "
              "initialisations and updates of the segment-copy loop, mat_dh/mat_mate/dense_dh/dense_cross, the statements of each protocol's mate() from "
              "the parent-index expansion to the constructor call incl. names, labels and counters, the metadata hand-over, nparent) and proved equal "
              "to the hand model (Proofs/C01_Kernel.v); the kernel theorems (crossover only where xoprob > 0, loop = mosaic, MOSAIC/DH/METADATA about "
              "the regenerated mate_k) and a two-call session theorem (counters run on, labels never reused) are stated about those definitions")
LEVEL_NOTE = ("trusted: Coq kernel + vm_compute; numpy slicing/repeat/stack/lexsort/unique semantics are modelled by hand and tied to the code only "
              "differentially; uniforms are scripted on the grid k/2^10 (a numpy Generator subclass), so the generator itself is outside the model; "
              "negative (wrap-around) parent indices, negative counts and progeny counters below 0 are outside the modelled domain; "
              "aliasing is checked by the predicate only (progeny matrix/labels are new writable memory, not shared with the parents, the "
              "arguments or between the two chromosome copies; writing into them does not reach the inputs); the marker-metadata arrays ARE shared "
              "by reference between parents and progeny (library behaviour, recorded in the evidence histogram, not claimed either way); "
              "the kernel translator (harness/translate/c01_kernel.py) is trusted and fail-closed: a statement outside its fragment is a broken "
              "correspondence; the argument checks at the head of mate() are modelled by hand (expand_count), not regenerated; "
              "genotype arrays with a number of phases other than 2 are outside the domain (mat_meiosis reads phases 0 and 1 only)")
TECHNIQUE = "Coq proof over an executable model (refinement loop = per-marker mosaic, pedigree invariant); in-Coq vm_compute correspondence with scripted draws; provenance-tracing predicate"
RULE = ("case = (protocol | mat_/dense_ function, genotype array, xoprob, xconfig, counts, nself, counters, metadata, scripted uniform pool); one PRNG; "
        "taxa 1..8, markers 1..24 in 1..3 chromosomes, int8 alleles incl. -128/127, xoprob from {0,2^-10,1/4,1/2,1-2^-10,1} and random k/2^10, "
        "draws biased to the comparison boundary (u = p and u = p - 2^-10), crosses 0..4 with selfs and repeated parents, scalar and array counts incl. 0, "
        "nself 0..3; plus predicate-only large cases (real PCG64, founder copies coded 2f+c+1, output run-length coded: more than 2^22 uniforms in one mat_meiosis/dense_meiosis call "
        "in the quick tier for a non-DH and a DH protocol, every protocol and 2^16..2^20 in thorough); plus provenance cases with real PCG64 draws and real-valued probabilities (small ones also evaluated in Coq on the exact rationals of the binary64 draws) and exhaustive crossover patterns; non-trivial = two founders of a cross "
        "row differ at a marker and at least one scripted crossover fires; distinct by SHA-256 of the case; "
        "plus: an entry-point audit by introspection of the anchored modules (every public class/function/parameter is driven or listed in SKIPPED; a new one "
        "fails the check); object lifecycle (parents through deepcopy/copy/select_taxa, protocol configured through the property setters with a decoy generator, "
        "miscout and extra keywords passed, sessions of 2-3 mate() calls on ONE protocol and ONE pgmat object with matrix/xoprob replaced in place or through "
        "setters, counters running on or set, generator replaced or continued); binary64 probabilities 2^-40, 2^-53, 1e-12, 2^-1022, 5e-324 and -0.0 next to "
        "draws of exactly 0 (shipped to Coq as exact rationals); parent indices > 127 and > 255, nmating/nprogeny/their product > 127 and > 255, "
        "crossover positions > 255; aliasing observables and a write-into-the-result test after every call")
TRUSTED = ["harness/translate/c01_kernel.py (ast -> Gallina for the C01 kernel; fail closed) and Model/C01_Kit.v (loop_n, rangeZ, name_of, seg_loop: the vocabulary the regenerated definitions are written in)",
           "rngscript.Scripted subclass handing out the case's uniform pool in request order (shapes and ranges requested are logged and compared)",
           "integer codes of strings/floats used to compare metadata arrays are injective (bytes of the value)"]
SEARCH_MAX = 1600
ASSUMPTIONS = ["parent indices in xconfig are 0 <= i (an index >= ntaxa is modelled as the IndexError it raises; negative numpy wrap-around indices are not modelled)",
               "nmating, nprogeny, nself >= 0; progeny_counter >= 0",
               "genotype array has two phases, int8; vrnt_xoprob has one entry per marker"]

PROTOS = ["SelfCross", "TwoWayCross", "TwoWayDHCross", "ThreeWayCross", "ThreeWayDHCross", "FourWayCross", "FourWayDHCross"]
COQP = {"SelfCross": "PSelf", "TwoWayCross": "P2", "TwoWayDHCross": "P2DH", "ThreeWayCross": "P3", "ThreeWayDHCross": "P3DH",
        "FourWayCross": "P4", "FourWayDHCross": "P4DH"}
NPAR = {"SelfCross": 1, "TwoWayCross": 2, "TwoWayDHCross": 2, "ThreeWayCross": 3, "ThreeWayDHCross": 3, "FourWayCross": 4, "FourWayDHCross": 4}
PREFIX = {"SelfCross": "sx", "TwoWayCross": "2w", "TwoWayDHCross": "dh", "ThreeWayCross": "3w", "ThreeWayDHCross": "dh", "FourWayCross": "4w", "FourWayDHCross": "dh"}
DEN = 1024
XOSET = [0, 1, 256, 512, 1023, 1024]
META_KEYS = ["vrnt_chrgrp", "vrnt_phypos", "vrnt_name", "vrnt_genpos", "vrnt_xoprob", "vrnt_hapgrp", "vrnt_hapalt", "vrnt_hapref", "vrnt_mask",
             "vrnt_chrgrp_name", "vrnt_chrgrp_stix", "vrnt_chrgrp_spix", "vrnt_chrgrp_len"]
F_HAP = "C01-hap-alleles-dropped"          # repaired in /repo 79a4ba88: kept as a fixed entry (witness re-run on every check)
F_NAME = "C01-name-width-order"

# ------------------------------------------------------------------ scripted generator carving one flat pool
class Pool(Scripted):
    def __init__(self, pool):
        super().__init__()
        self.pool = pool; self.pos = 0; self.shapes = []; self.ranges = []
    def uniform(self, low=0.0, high=1.0, size=None):
        shape = () if size is None else ((int(size),) if isinstance(size, (int, numpy.integer)) else tuple(int(x) for x in size))
        k = 1
        for d in shape: k *= d
        self.shapes.append(list(shape)); self.ranges.append([float(low), float(high)])
        if self.pos + k > len(self.pool):
            raise ScriptExhausted("uniform pool exhausted: request %r at position %d of %d" % (shape, self.pos, len(self.pool)))
        v = self.pool[self.pos:self.pos + k]; self.pos += k
        a = numpy.array(v, dtype=float) / DEN
        return float(a.reshape(())) if size is None else a.reshape(shape)

class Real(Scripted):
    """real PCG64 draws, logged"""
    def __init__(self, seed, keep=True):
        super().__init__()
        self.g = numpy.random.Generator(numpy.random.PCG64(seed)); self.shapes = []; self.ranges = []; self.drawn = []; self.keep = keep
    def uniform(self, low=0.0, high=1.0, size=None):
        shape = () if size is None else ((int(size),) if isinstance(size, (int, numpy.integer)) else tuple(int(x) for x in size))
        self.shapes.append(list(shape)); self.ranges.append([float(low), float(high)])
        a = self.g.uniform(low, high, size)
        if self.keep: self.drawn.append(numpy.asarray(a).tolist())
        return a

# ------------------------------------------------------------------ generators
def _xoprob(rng, p, nchr, mode):
    # chromosome starts get 1/2 (as pybrops' genetic maps do) in "map" mode
    starts = set([0] + sorted(rng.sample(range(1, p), min(nchr - 1, p - 1)))) if p > 1 else {0}
    xo = []
    for j in range(p):
        if mode == "map": xo.append(512 if j in starts else rng.choice([0, 1, 3, 40, 256, 300, 511]))
        elif mode == "set": xo.append(rng.choice(XOSET))
        elif mode == "zeros": xo.append(0 if rng.random() < 0.7 else rng.choice(XOSET))
        else: xo.append(rng.randint(0, DEN))
    return xo, sorted(starts)

def _geno(rng, n, p, mode):
    if mode == "binary":
        return [[[rng.randint(0, 1) for _ in range(p)] for _ in range(n)] for _ in range(2)]
    if mode == "distinct":          # allele identifies (founder, copy) at every marker
        return [[[(2 * i + c) - 100 for _ in range(p)] for i in range(n)] for c in range(2)]
    if mode == "distinct2":         # ... and the marker as well, wrapping in int8
        return [[[((2 * i + c) * 31 + 7 * j) % 256 - 128 for j in range(p)] for i in range(n)] for c in range(2)]
    if mode == "extreme":
        return [[[rng.choice([-128, -1, 0, 1, 127]) for _ in range(p)] for _ in range(n)] for _ in range(2)]
    if mode == "same":
        r = [rng.randint(0, 1) for _ in range(p)]
        return [[list(r) for _ in range(n)] for _ in range(2)]
    return [[[rng.randint(-128, 127) for _ in range(p)] for _ in range(n)] for _ in range(2)]

def _pool(rng, xoprob, rows, extra, style):
    p = len(xoprob); out = []
    for t in range(rows * p + extra):
        x = xoprob[t % p] if p else 0
        k = rng.random()
        if style == "none": u = max(x, 0) if x < DEN else DEN - 1      # never a crossover (unless p = 1)
        elif k < 0.3: u = min(x, DEN - 1)              # u == p : no crossover (strict <)
        elif k < 0.6: u = x - 1 if x > 0 else 0        # u == p - 2^-10 : crossover
        elif k < 0.7: u = 0
        elif k < 0.8: u = DEN - 1
        else: u = rng.randint(0, DEN - 1)
        out.append(u)
    return out

def _need_rows(proto, nm, np_, nself):
    n1 = sum(nm); nt = sum(a * b for a, b in zip(nm, np_)); s = 1 + nself
    return {"SelfCross": 2 * nt * s, "TwoWayCross": 2 * nt * s, "TwoWayDHCross": 2 * n1 * s + nt, "ThreeWayCross": 2 * n1 + 2 * nt * s,
            "ThreeWayDHCross": 2 * n1 + 2 * n1 * s + nt, "FourWayCross": 4 * n1 + 2 * nt * s, "FourWayDHCross": 4 * n1 + 2 * n1 * s + nt}[proto]

def _meta(rng, p, starts, hap):
    m = {}
    chrgrp = []; c = 0
    for j in range(p):
        if j in starts and j > 0: c += 1
        chrgrp.append(c + 1)
    full = rng.random() < 0.6
    def has(): return full or rng.random() < 0.5
    m["vrnt_chrgrp"] = chrgrp if has() else None
    m["vrnt_phypos"] = [10 * j + rng.randint(0, 9) for j in range(p)] if (m["vrnt_chrgrp"] is not None and has()) else None
    m["vrnt_name"] = ["m%d_%s" % (j, rng.choice("abc")) for j in range(p)] if has() else None
    m["vrnt_genpos"] = [j * 16 + rng.randint(0, 15) for j in range(p)] if has() else None       # numerators over 1024
    m["vrnt_hapgrp"] = [rng.randint(0, 3) for _ in range(p)] if has() else None
    m["vrnt_hapalt"] = [rng.choice("ACGT") for _ in range(p)] if hap else None
    m["vrnt_hapref"] = [rng.choice("ACGT") for _ in range(p)] if (hap and rng.random() < 0.7) else None
    m["vrnt_mask"] = [rng.random() < 0.5 for _ in range(p)] if has() else None
    m["group_vrnt"] = bool(m["vrnt_chrgrp"] is not None and m["vrnt_phypos"] is not None and rng.random() < 0.6)
    m["taxa"] = rng.random() < 0.5
    return m

TINY = [2.0 ** -40, 5e-324, 2.0 ** -1022, 1e-12, 2.0 ** -53]
def _tiny_xoprob(rng, xoprob):
    """the same probabilities as binary64 values, with 2^-10 replaced by tiny positive numbers (2^-40, the smallest denormal, ...)
    and exact zeros sometimes written -0.0: a tolerance in place of the exact comparison `rnd < xoprob` changes the outcome"""
    return [(rng.choice([0.0, 0.0, -0.0]) if x == 0 else (rng.choice(TINY) if x == 1 else x / DEN)) for x in xoprob]

def _xo_num(case):
    """crossover probabilities as exact numerators over DEN (comparable with the scripted pool)"""
    if "xoprob_f" in case: return [Fraction(float(x)) * DEN for x in case["xoprob_f"]]
    return case["xoprob"]

def _proto_case(rng, proto, tier, opts=None):
    o = opts or {}
    big = tier == "thorough"
    n = o.get("n") or rng.choice([1, 2, 2, 3, 3, 4, 5, 6, 8])
    p = o.get("p") or (rng.choice([1, 2, 3, 4, 5, 6, 8, 10, 16, 24]) if big else rng.choice([1, 2, 3, 4, 5, 5, 6, 7, 8, 12]))
    nchr = rng.randint(1, 3)
    xoprob, starts = _xoprob(rng, p, nchr, o.get("xomode") or rng.choice(["map", "map", "set", "set", "zeros", "rand"]))
    gmode = rng.choice(["binary", "distinct", "distinct2", "distinct2", "extreme", "random", "same"]) if "gmode" not in o else o["gmode"]
    geno = _geno(rng, n, p, gmode)
    npar = NPAR[proto]
    ncross = o.get("ncross", rng.choice([0, 1, 1, 2, 2, 3, 4]))
    xc = []
    for _ in range(ncross):
        k = rng.random()
        lo = o.get("parent_lo", 0)                                                # wide cases: parents from the top of a long list
        if k < 0.15: a = rng.randrange(lo, n); row = [a] * npar                   # every parent the same individual
        elif k < 0.35 and npar >= 2: row = [rng.randrange(lo, n) for _ in range(npar)]; row[rng.randrange(1, npar)] = row[0]
        else: row = [rng.randrange(lo, n) for _ in range(npar)]
        xc.append(row)
    if xc and rng.random() < 0.2 and "counts" not in o: xc.append(list(xc[0])); ncross += 1             # a repeated cross
    def cnt():
        if rng.random() < 0.5: return rng.choice([0, 1, 1, 2, 2, 3])
        return [rng.choice([0, 1, 1, 2, 2, 3]) for _ in range(ncross)]
    nmating, nprogeny = cnt(), cnt()
    if "counts" in o: nmating, nprogeny = o["counts"]
    nself = o.get("nself", rng.choice([0, 0, 0, 1, 1, 2, 3]))
    pc = rng.choice([0, 0, 1, 7, 42, 123456, 9999990 - rng.randint(0, 50)]); fc = rng.choice([0, 0, 1, 5, -3, 1000, 2 ** 40])
    nm = [nmating] * ncross if isinstance(nmating, int) else nmating
    np_ = [nprogeny] * ncross if isinstance(nprogeny, int) else nprogeny
    hap = rng.random() < 0.3
    case = {"kind": "proto", "proto": proto, "geno": geno, "xoprob": xoprob, "xconfig": xc, "nmating": nmating, "nprogeny": nprogeny,
            "nself": nself, "pc": pc, "fc": fc, "meta": _meta(rng, p, set(starts), hap)}
    if rng.random() < 0.15: case["np_scalar"] = True          # Integral counts given as numpy.int64 scalars
    if rng.random() < 0.2 and not o.get("plain"):
        if 1 not in xoprob and p > 0: xoprob[rng.randrange(p)] = 1
        case["xoprob_f"] = _tiny_xoprob(rng, xoprob)
    if not o.get("plain"):
        # lifecycle: how the objects are obtained, optional arguments
        case["meta"]["route"] = rng.choice(["ctor", "ctor", "deepcopy", "copy", "select"])
        case["prot_route"] = rng.choice(["ctor", "ctor", "setters"])
        if rng.random() < 0.2: case["miscout"] = True
        if rng.random() < 0.1: case["kw"] = True
    bad = o.get("bad")
    if bad == "index" and ncross:
        i = rng.randrange(ncross); xc[i][rng.randrange(npar)] = n + rng.randint(0, 2)
    elif bad == "width":
        for r in xc: r.append(0)
        if not xc: case["xwidth"] = npar + 1
    elif bad == "countlen":
        case["nmating"] = nm + [1]
    case["pool"] = _pool(rng, xoprob, _need_rows(proto, nm, np_, nself), 2 * p + 3, "none" if rng.random() < 0.05 else "mix")
    return case

WIDE_COUNTS = [(1, 260), (260, 1), (16, 17), (2, 130), (130, 2)]      # (nmating, nprogeny): each count and the product beyond 127 / 255
def _wide_case(rng, proto, kind, variant=0):
    """more founders, progeny or markers than a narrow integer type can count (index arrays cast to int8/uint8, narrow counters)"""
    if kind == "taxa":          # parent indices > 127 / > 255
        n = [130, 300, 200, 260][variant % 4]
        return _proto_case(rng, proto, "quick", {"n": n, "p": rng.choice([2, 3]), "gmode": "random", "ncross": rng.choice([1, 2, 3]),
                                                 "parent_lo": rng.choice([128, n - 4]) if n < 257 else rng.choice([256, n - 4]), "nself": rng.choice([0, 1])})
    if kind == "progeny":       # more than 255 progeny from one cross
        a, b = WIDE_COUNTS[variant % len(WIDE_COUNTS)]
        return _proto_case(rng, proto, "quick", {"n": rng.choice([2, 4]), "p": 2, "gmode": "distinct2", "ncross": 1, "counts": (a, b), "nself": 0,
                                                 "xomode": "set"})
    # markers: crossover positions beyond 255
    return _proto_case(rng, proto, "quick", {"n": rng.choice([2, 3]), "p": rng.choice([260, 300]), "gmode": "binary", "ncross": 1,
                                             "counts": (1, rng.choice([1, 2])), "nself": rng.choice([0, 1]), "xomode": "zeros"})

def _session_case(rng, proto):
    """one protocol object and one pgmat object used for several mate() calls; between the calls the matrix and the crossover
    probabilities are replaced (in place or through the setters), counters run on (or are set through their setters): every call
    must depend on the state at that call only"""
    n = rng.choice([2, 3, 4, 5]); p = rng.choice([2, 3, 4, 6])
    steps = []; pc = rng.choice([0, 3, 1000]); fc = rng.choice([0, 2, 50])
    for k in range(rng.choice([2, 2, 3])):
        c = _proto_case(rng, proto, "quick", {"n": n, "p": p, "plain": True, "ncross": rng.choice([1, 1, 2, 3]),
                                              "gmode": rng.choice(["binary", "distinct", "distinct2", "random"])})
        c["meta"]["vrnt_hapalt"] = None; c["meta"]["vrnt_hapref"] = None
        if k:
            c["meta"] = steps[0]["meta"]
            c["update"] = {"mat": rng.choice(["inplace", "setter", "keep"]), "xo": rng.choice(["inplace", "setter", "keep"]),
                           "counters": rng.choice(["run_on", "run_on", "setters"]), "rng": rng.choice(["setter", "keep"])}
            if c["update"]["mat"] == "keep": c["geno"] = steps[-1]["geno"]
            if c["update"]["xo"] == "keep":
                c["xoprob"] = steps[-1]["xoprob"]
                nm, np_ = _counts(c)
                c["pool"] = _pool(rng, c["xoprob"], _need_rows(proto, nm, np_, c["nself"]), 2 * p + 3, "mix")
            if c["update"]["counters"] == "setters": pc = rng.choice([0, 7, 500]); fc = rng.choice([0, 9])
        c["pc"], c["fc"] = pc, fc
        nm, np_ = _counts(c)
        N = sum(a * b for a, b in zip(nm, np_))
        pc += N; fc += len(c["xconfig"])
        steps.append(c)
    return {"kind": "session", "proto": proto, "steps": steps}

def _width_case(rng, proto):
    """names crossing the 7-digit zero-fill width inside one family (known finding F_NAME)"""
    c = _proto_case(rng, proto, "quick", {"ncross": 1, "nself": 0})
    c["nmating"], c["nprogeny"] = 2, 2
    c["xconfig"] = c["xconfig"][:1]
    c["pc"] = 10 ** 7 - rng.randint(1, 3)
    c["meta"]["vrnt_hapalt"] = None; c["meta"]["vrnt_hapref"] = None
    c["pool"] = _pool(rng, c["xoprob"], _need_rows(proto, [2], [2], 0), 3, "mix")
    return c

def _util_case(rng, module, fn, tier):
    n = rng.choice([1, 2, 3, 4, 6]); p = rng.choice([1, 2, 3, 4, 5, 6, 8, 12])
    xoprob, _ = _xoprob(rng, p, rng.randint(1, 3), rng.choice(["map", "set", "zeros", "rand"]))
    gm = rng.choice(["binary", "distinct2", "extreme", "random"])
    geno = _geno(rng, n, p, gm)
    k = rng.choice([0, 1, 2, 3, 5, 8])
    c = {"kind": "util", "module": module, "fn": fn, "geno": geno, "xoprob": xoprob, "sel": [rng.randrange(n) for _ in range(k)]}
    if rng.random() < 0.2:
        if 1 not in xoprob: xoprob[rng.randrange(p)] = 1
        c["xoprob_f"] = _tiny_xoprob(rng, xoprob)
    rows = k
    if fn == "mate":
        n2 = rng.choice([1, 2, 3, 5])
        c["geno2"] = _geno(rng, n2, p, gm); c["sel2"] = [rng.randrange(n2) for _ in range(k)]; rows = 2 * k
    c["pool"] = _pool(rng, xoprob, rows, 3, "mix")
    return c

def _wide_util_case(rng, module, fn):
    """selection indices > 127 / > 255 and crossover positions > 255"""
    n = rng.choice([200, 300]); p = rng.choice([2, 3, 280])
    if p > 3: n = 3
    xoprob, _ = _xoprob(rng, p, 2, "zeros" if p > 3 else "set")
    geno = _geno(rng, n, p, "random"); k = rng.choice([2, 3])
    c = {"kind": "util", "module": module, "fn": fn, "geno": geno, "xoprob": xoprob, "sel": [rng.randrange(max(0, n - 5), n) for _ in range(k)]}
    rows = k
    if fn == "mate":
        c["geno2"] = _geno(rng, n, p, "random"); c["sel2"] = [rng.randrange(max(0, n - 5), n) for _ in range(k)]; rows = 2 * k
    c["pool"] = _pool(rng, xoprob, rows, 3, "mix")
    return c

def _sweep_case(module, m):
    """every one of the 2^m crossover patterns on m markers, one gamete each (parent copies differ at every marker)"""
    xoprob = [512 if j % 3 == 0 else (1 if j % 3 == 1 else 1023) for j in range(m)]
    geno = [[[j + 1 for j in range(m)]], [[-(j + 1) for j in range(m)]]]
    pool = []
    for pat in range(2 ** m):
        for j in range(m):
            pool.append(xoprob[j] - 1 if (pat >> j) & 1 else xoprob[j])       # u = p - 2^-10 crosses, u = p does not
    return {"kind": "util", "module": module, "fn": "meiosis", "geno": geno, "xoprob": xoprob, "sel": [0] * (2 ** m), "pool": pool}

def _real_case(rng, proto):
    n = rng.randint(2, 8); p = rng.choice([3, 5, 8, 13, 24])
    c = _proto_case(rng, proto, "quick", {"n": n, "p": p, "gmode": "distinct"})
    # real probabilities: 0.5 at chromosome starts, small elsewhere, some exact zeros
    c["xoprob_f"] = [0.5 if x == 512 else (0.0 if x in (0, 1) else rng.random() * 0.3) for x in c["xoprob"]]
    c["real_rng"] = rng.randrange(2 ** 31); c["pool"] = []
    c["meta"]["vrnt_hapalt"] = None; c["meta"]["vrnt_hapref"] = None
    c["pc"] = rng.choice([0, 5, 1000])
    return c

NONE_META = {"vrnt_chrgrp": None, "vrnt_phypos": None, "vrnt_name": None, "vrnt_genpos": None, "vrnt_hapgrp": None, "vrnt_hapalt": None,
             "vrnt_hapref": None, "vrnt_mask": None, "group_vrnt": False, "taxa": False}
BIG_XC = {1: [[0], [2]], 2: [[0, 1], [2, 3]], 3: [[0, 1, 2], [3, 0, 1]], 4: [[0, 1, 2, 3], [2, 3, 0, 1]]}
RLE_CAP = 200

def _big_geno(n, p):
    """founder f, chromosome copy c carries the allele code 2f+c+1 at every marker: a progeny chromosome spells out its provenance"""
    return [[[2 * f + c + 1] * p for f in range(n)] for c in range(2)]

def _big_xoprob(rng, p, npos):
    xo = [0.0] * p
    xo[0] = rng.choice([0.5, 0.0])
    for j in rng.sample(range(1, p), min(npos, p - 1)): xo[j] = rng.choice([0.5, 0.25, 0.1, 0.03])
    return xo

def _big_case(rng, proto, p, nprog, nself=0):
    """size-dependent code paths: one mat_meiosis call draws 2*nprog*p uniforms (real PCG64; predicate only, output run-length coded)"""
    xo = _big_xoprob(rng, p, rng.randint(8, 30))
    return {"kind": "proto", "proto": proto, "big": True, "geno": _big_geno(4, p), "xoprob": [512 if x > 0 else 0 for x in xo], "xoprob_f": xo,
            "xconfig": [list(r) for r in BIG_XC[NPAR[proto]]], "nmating": 1, "nprogeny": nprog, "nself": nself, "pc": rng.choice([0, 1000]),
            "fc": rng.choice([0, 7]), "meta": dict(NONE_META), "real_rng": rng.randrange(2 ** 31), "pool": []}

def _big_util_case(rng, module, p, k):
    xo = _big_xoprob(rng, p, rng.randint(8, 30))
    return {"kind": "util", "module": module, "fn": "meiosis", "big": True, "geno": _big_geno(4, p), "xoprob": [512 if x > 0 else 0 for x in xo],
            "xoprob_f": xo, "sel": [rng.randrange(4) for _ in range(k)], "real_rng": rng.randrange(2 ** 31), "pool": []}

def _big_cases(rng, tier):
    out = []
    # > 2^22 uniforms in ONE mat_meiosis call: 1200 gametes x 4096 markers
    for proto in (["TwoWayCross", "TwoWayDHCross"] if tier == "quick" else PROTOS):
        out.append(_big_case(rng, proto, 4096, 600))
    for module in ("mat", "dense"):
        out.append(_big_util_case(rng, module, 4096, 1100))
    if tier != "quick":
        for proto in PROTOS:                      # 2^16 .. 2^20 uniforms per call
            out.append(_big_case(rng, proto, 256, rng.randint(128, 1024), rng.choice([0, 1])))
            out.append(_big_case(rng, proto, 1024, rng.randint(32, 500), rng.choice([0, 1])))
            out.append(_big_case(rng, proto, 2048, rng.randint(16, 250), 0))
        for module in ("mat", "dense"):
            out.append(_big_util_case(rng, module, 512, rng.randint(128, 2000)))
    return out

def gen_cases(rng, tier):
    cases = [{"kind": "audit"}]
    quick = tier == "quick"
    nproto = 150 if quick else 3300
    for proto in PROTOS:
        for _ in range(nproto):
            cases.append(_proto_case(rng, proto, tier))
        for bad in ("index", "width", "countlen"):
            for _ in range(3 if quick else 30):
                cases.append(_proto_case(rng, proto, tier, {"bad": bad, "ncross": rng.choice([1, 2, 3])}))
        cases.append(_width_case(rng, proto))
        for _ in range(12 if quick else 150):
            cases.append(_real_case(rng, proto))
        for rep_ in range(1 if quick else 6):
            for v in range(2 if quick else 4): cases.append(_wide_case(rng, proto, "taxa", v))
            for v in range(len(WIDE_COUNTS)): cases.append(_wide_case(rng, proto, "progeny", v))
            cases.append(_wide_case(rng, proto, "markers"))
        for _ in range(12 if quick else 200):
            cases.append(_session_case(rng, proto))
    for module in ("mat", "dense"):
        for fn in ("meiosis", "dh", "mate"):
            for _ in range(45 if quick else 900):
                cases.append(_util_case(rng, module, fn, tier))
            for _ in range(2 if quick else 20):
                cases.append(_wide_util_case(rng, module, fn))
        for m in (range(1, 6) if quick else range(1, 9)):
            cases.append(_sweep_case(module, m))
    cases += _big_cases(rng, tier)                # last: they are the slow ones
    return cases

def search_cases(rng):
    return gen_cases(rng, "quick")

# ------------------------------------------------------------------ implementation driver
def _arr(x, dtype):
    return None if x is None else numpy.array(x, dtype=dtype)

def _snap(a):
    if a is None: return None
    a = numpy.asarray(a)
    if a.dtype == object: return ("object", a.shape, tuple(a.tolist()))
    return (str(a.dtype), a.shape, a.tobytes())

def _tolist(a):
    if a is None: return None
    return numpy.asarray(a).tolist()

def _build_pgmat(case):
    from pybrops.popgen.gmat.DensePhasedGenotypeMatrix import DensePhasedGenotypeMatrix
    m = case["meta"]; geno = numpy.array(case["geno"], dtype="int8")
    n = geno.shape[1]
    xo = numpy.array(case["xoprob_f"], dtype=float) if "xoprob_f" in case else numpy.array(case["xoprob"], dtype=float) / DEN
    g = DensePhasedGenotypeMatrix(
        geno,
        taxa=numpy.array(["P%d" % i for i in range(n)], dtype=object) if m.get("taxa") else None,
        taxa_grp=numpy.array([i // 2 for i in range(n)], dtype="int64") if m.get("taxa") else None,
        vrnt_chrgrp=_arr(m["vrnt_chrgrp"], "int64"), vrnt_phypos=_arr(m["vrnt_phypos"], "int64"),
        vrnt_name=_arr(m["vrnt_name"], object),
        vrnt_genpos=None if m["vrnt_genpos"] is None else numpy.array(m["vrnt_genpos"], dtype=float) / DEN,
        vrnt_xoprob=xo, vrnt_hapgrp=_arr(m["vrnt_hapgrp"], "int64"),
        vrnt_hapalt=_arr(m["vrnt_hapalt"], object), vrnt_hapref=_arr(m["vrnt_hapref"], object),
        vrnt_mask=_arr(m["vrnt_mask"], bool))
    if m.get("group_vrnt"):
        g.group_vrnt()
        if not numpy.array_equal(g.mat, geno):
            raise RuntimeError("harness: group_vrnt reordered the generated matrix")
    # lifecycle: the parents may come out of the library's own copy / selection routes
    route = m.get("route", "ctor")
    if route == "deepcopy":
        import copy; g = copy.deepcopy(g)
    elif route == "copy":
        import copy; g = copy.copy(g)
    elif route == "select":
        g = g.select_taxa(numpy.arange(n))
    if route != "ctor" and not numpy.array_equal(g.mat, geno):
        raise RuntimeError("harness: route %s changed the generated matrix" % route)
    return g

PG_FIELDS = ["mat", "taxa", "taxa_grp"] + META_KEYS

def _shares(a, b):
    if a is None or b is None: return False
    a, b = numpy.asarray(a), numpy.asarray(b)
    return bool(a.size and b.size and numpy.shares_memory(a, b))

def _make_prot(case, cls, rng):
    """the protocol object: through the constructor, or built with defaults (and a decoy generator) and configured through the
    property setters; the decoy must never be asked for a draw"""
    if case.get("prot_route") == "setters":
        decoy = Pool([])
        prot = cls(rng=decoy)
        prot.progeny_counter = case["pc"]; prot.family_counter = case["fc"]; prot.rng = rng
        return prot, decoy
    return cls(progeny_counter=case["pc"], family_counter=case["fc"], rng=rng), None

def _run_proto(case, shared=None):
    import importlib
    proto = case["proto"]
    cls = getattr(importlib.import_module("pybrops.breed.prot.mate." + proto), proto)
    g = _build_pgmat(case) if shared is None else shared["g"]
    before = {k: _snap(getattr(g, k)) for k in PG_FIELDS}
    meta_in = {k: _tolist(getattr(g, k)) for k in META_KEYS}
    meta_in_dt = {k: (None if getattr(g, k) is None else str(numpy.asarray(getattr(g, k)).dtype)) for k in META_KEYS}
    npar = NPAR[proto]
    xc = numpy.array(case["xconfig"], dtype="int64").reshape(len(case["xconfig"]), case.get("xwidth", len(case["xconfig"][0]) if case["xconfig"] else npar))
    nm = case["nmating"] if isinstance(case["nmating"], int) else numpy.array(case["nmating"], dtype="int64")
    np_ = case["nprogeny"] if isinstance(case["nprogeny"], int) else numpy.array(case["nprogeny"], dtype="int64")
    if case.get("np_scalar"):
        if isinstance(nm, int): nm = numpy.int64(nm)
        if isinstance(np_, int): np_ = numpy.int64(np_)
    args_before = (_snap(xc), _snap(nm) if not isinstance(nm, int) else None, _snap(np_) if not isinstance(np_, int) else None)
    if shared is None:
        rng = Real(case["real_rng"], keep=not case.get("big")) if case.get("real_rng") is not None else Pool(case["pool"])
        prot, decoy = _make_prot(case, cls, rng)
    else:
        rng, prot, decoy = shared["rng"], shared["prot"], shared.get("decoy")
    nshapes = len(rng.shapes)
    out = {"meta_in": meta_in, "meta_in_dtype": meta_in_dt}
    extra = {}
    if case.get("miscout"): extra["miscout"] = {}
    if case.get("kw"): extra["verif_dummy_keyword"] = 1
    try:
        res = prot.mate(g, xc, nm, np_, nself=case["nself"], **extra)
    except ScriptExhausted:
        raise
    except Exception as e:
        out["error"] = type(e).__name__; out["msg"] = str(e)[:200]
        res = None
    out["pc"] = int(prot.progeny_counter); out["fc"] = int(prot.family_counter)
    out["shapes"] = rng.shapes[nshapes:]; out["ranges_ok"] = all(r == [0.0, 1.0] for r in rng.ranges[nshapes:])
    out["decoy_used"] = bool(decoy is not None and decoy.shapes)
    out["unchanged"] = [k for k in PG_FIELDS if _snap(getattr(g, k)) != before[k]]
    out["args_unchanged"] = (_snap(xc), _snap(nm) if not isinstance(nm, int) else None, _snap(np_) if not isinstance(np_, int) else None) == args_before
    if isinstance(rng, Real) and not case.get("big"): out["drawn"] = rng.drawn
    if res is not None:
        out["cls"] = type(res).__name__
        out["mat_dtype"] = str(res.mat.dtype); out["mat_shape"] = list(res.mat.shape)
        if case.get("big"):
            out["rle"], out["nseg"] = _rle(res.mat)
            out["dh_equal"] = bool(res.mat.shape[0] == 2 and numpy.array_equal(res.mat[0], res.mat[1]))
        else:
            out["mat"] = res.mat.tolist()
        out["taxa"] = _tolist(res.taxa); out["taxa_dtype"] = None if res.taxa is None else str(res.taxa.dtype)
        out["taxa_grp"] = _tolist(res.taxa_grp); out["taxa_grp_dtype"] = None if res.taxa_grp is None else str(res.taxa_grp.dtype)
        for k in ("taxa_grp_name", "taxa_grp_stix", "taxa_grp_spix", "taxa_grp_len"):
            out[k] = _tolist(getattr(res, k))
        out["meta"] = {k: _tolist(getattr(res, k)) for k in META_KEYS}
        out["meta_dtype"] = {k: (None if getattr(res, k) is None else str(numpy.asarray(getattr(res, k)).dtype)) for k in META_KEYS}
        # aliasing: the progeny arrays are new memory; writing into them must not reach the parents or the arguments
        al = {"mat_in": _shares(res.mat, g.mat), "phases": bool(res.mat.shape[0] >= 2 and _shares(res.mat[0], res.mat[1])),
              "readonly": not res.mat.flags.writeable,
              "args": any(_shares(getattr(res, k), a) for k in ("mat", "taxa_grp", "taxa_grp_name", "taxa_grp_stix", "taxa_grp_spix", "taxa_grp_len")
                          for a in (xc, nm, np_) if not isinstance(a, (int, numpy.integer))),
              "meta_shared": sorted(k for k in META_KEYS if _shares(getattr(res, k), getattr(g, k)))}
        b2 = {k: _snap(getattr(g, k)) for k in ("mat", "taxa", "taxa_grp")}
        try:
            if res.mat.flags.writeable and res.mat.size: res.mat += 1
            if res.taxa_grp is not None and res.taxa_grp.size: res.taxa_grp += 1
            if res.taxa is not None and res.taxa.size: res.taxa[:] = "overwritten"
        except Exception as e:
            al["write_error"] = type(e).__name__
        al["reached"] = [k for k in b2 if _snap(getattr(g, k)) != b2[k]]
        if (_snap(xc), _snap(nm) if not isinstance(nm, int) else None, _snap(np_) if not isinstance(np_, int) else None) != args_before:
            al["reached"].append("arguments")
        out["alias"] = al
    return out

def _run_session(case):
    """several mate() calls on ONE protocol object and ONE pgmat object with updates in between"""
    import importlib
    proto = case["proto"]; steps = case["steps"]
    cls = getattr(importlib.import_module("pybrops.breed.prot.mate." + proto), proto)
    g = _build_pgmat(steps[0])
    rng = Pool(steps[0]["pool"])
    prot, decoy = _make_prot(steps[0], cls, rng)
    sh = {"g": g, "rng": rng, "prot": prot, "decoy": decoy}
    outs = []
    for k, st in enumerate(steps):
        if k:
            up = st["update"]
            geno = numpy.array(st["geno"], dtype="int8"); xo = numpy.array(st["xoprob"], dtype=float) / DEN
            if up["mat"] == "inplace": g.mat[...] = geno
            elif up["mat"] == "setter": g.mat = geno
            if up["xo"] == "inplace": g.vrnt_xoprob[...] = xo
            elif up["xo"] == "setter": g.vrnt_xoprob = xo
            if up["counters"] == "setters": prot.progeny_counter = st["pc"]; prot.family_counter = st["fc"]
            if up["rng"] == "setter":
                sh["rng"] = Pool(st["pool"]); prot.rng = sh["rng"]
            else:                                            # the same generator object goes on with the next script
                sh["rng"].pool = st["pool"]; sh["rng"].pos = 0
        o = _run_proto(st, sh)
        o["pc_before"] = None
        outs.append(o)
    return {"steps": outs}

def _run_audit(case):
    """entry points of the anchored modules, by introspection"""
    import importlib, inspect, pkgutil
    out = {"modules": {}, "classes": {}}
    pkg = importlib.import_module("pybrops.breed.prot.mate")
    out["package"] = sorted(m.name for m in pkgutil.iter_modules(pkg.__path__))
    for name in ["pybrops.breed.prot.mate." + m for m in out["package"]] + ["pybrops.core.util.mate"]:
        mod = importlib.import_module(name)
        pub = {}
        for n, o in vars(mod).items():
            if n.startswith("_") or getattr(o, "__module__", None) != name: continue
            if inspect.isclass(o): pub[n] = "class"
            elif inspect.isfunction(o): pub[n] = "function(%s)" % ",".join(inspect.signature(o).parameters)
        out["modules"][name] = pub
        for n, kind in pub.items():
            if kind == "class":
                o = getattr(mod, n)
                own = sorted(k for k in vars(o) if not k.startswith("_"))
                sig = {}
                for meth in ("__init__", "mate"):
                    if meth in vars(o): sig[meth] = list(inspect.signature(vars(o)[meth]).parameters)
                out["classes"][n] = {"own": own, "sig": sig, "bases": [b.__name__ for b in o.__mro__[1:-1]]}
    return out

def _rle(a):
    """lossless run-length code of every row of the last axis: [[start, value], ...] (first RLE_CAP runs) and the number of runs"""
    a = numpy.asarray(a)
    if a.ndim == 3:
        r = [_rle(x) for x in a]
        return [x[0] for x in r], [x[1] for x in r]
    runs, nseg = [], []
    ch = a[:, 1:] != a[:, :-1]
    for k in range(a.shape[0]):
        st = [0] + (numpy.flatnonzero(ch[k]) + 1).tolist() if a.shape[1] else []
        nseg.append(len(st)); runs.append([[j, int(a[k, j])] for j in st[:RLE_CAP]])
    return runs, nseg

def _run_util(case):
    import importlib
    if case["module"] == "mat":
        mod = importlib.import_module("pybrops.breed.prot.mate.util"); names = {"meiosis": "mat_meiosis", "dh": "mat_dh", "mate": "mat_mate"}
    else:
        mod = importlib.import_module("pybrops.core.util.mate"); names = {"meiosis": "dense_meiosis", "dh": "dense_dh", "mate": "dense_cross"}
    f = getattr(mod, names[case["fn"]])
    geno = numpy.array(case["geno"], dtype="int8")
    xo = numpy.array(case["xoprob_f"], dtype=float) if "xoprob_f" in case else numpy.array(case["xoprob"], dtype=float) / DEN
    sel = numpy.array(case["sel"], dtype="int64")
    rng = Real(case["real_rng"], keep=False) if case.get("real_rng") is not None else Pool(case["pool"])
    b = [_snap(geno), _snap(xo), _snap(sel)]
    if case["fn"] == "mate":
        geno2 = numpy.array(case["geno2"], dtype="int8"); sel2 = numpy.array(case["sel2"], dtype="int64")
        b += [_snap(geno2), _snap(sel2)]
        res = f(geno, geno2, sel, sel2, xo, rng)
        a = [_snap(geno), _snap(xo), _snap(sel), _snap(geno2), _snap(sel2)]
    else:
        res = f(geno, sel, xo, rng)
        a = [_snap(geno), _snap(xo), _snap(sel)]
    out = {"dtype": str(res.dtype), "shape": list(res.shape), "shapes": rng.shapes,
           "ranges_ok": all(r == [0.0, 1.0] for r in rng.ranges), "unchanged": a == b}
    out["alias"] = {"in": _shares(res, geno) or (case["fn"] == "mate" and _shares(res, geno2)) or _shares(res, xo) or _shares(res, sel),
                    "phases": bool(case["fn"] != "meiosis" and res.shape[0] >= 2 and _shares(res[0], res[1])), "readonly": not res.flags.writeable}
    if case.get("big"): out["rle"], out["nseg"] = _rle(res)
    else: out["res"] = res.tolist()
    return out

def run_impl(case):
    if case["kind"] == "proto": return _run_proto(case)
    if case["kind"] == "session": return _run_session(case)
    if case["kind"] == "audit": return _run_audit(case)
    return _run_util(case)

# ------------------------------------------------------------------ emission
def _zl(xs): return "[" + ";".join(("(%d)" % x) if x < 0 else "%d" % x for x in xs) + "]"
def _zl2(xss): return "[" + ";".join(_zl(r) for r in xss) + "]"
def _zl3(xsss): return "[" + ";".join(_zl2(r) for r in xsss) + "]"
def Zl(xs): return "(%s)%%Z" % _zl(xs)
def Zl2(xs): return "(%s)%%Z" % _zl2(xs)
def Zl3(xs): return "(%s)%%Z" % _zl3(xs)
def Nl(xs): return "(%s)%%nat" % _zl(xs)
def Nl2(xs): return "(%s)%%nat" % _zl2(xs)

def _carve(pool, shapes):
    """the uniform matrices the implementation received, as numerators"""
    out = []; pos = 0
    for sh in shapes:
        if len(sh) != 2: raise ValueError("non 2-D uniform request %r" % (sh,))
        r, c = sh
        if pos + r * c > len(pool): break
        out.append([pool[pos + i * c: pos + (i + 1) * c] for i in range(r)]); pos += r * c
    return out

def _code_str(s): return int.from_bytes(b"\x01" + str(s).encode("utf8"), "big")
def _code_float(x): return struct.unpack("<Q", struct.pack("<d", float(x)))[0]
def _code_field(k, v):
    if v is None: return "None"
    if k in ("vrnt_name", "vrnt_hapalt", "vrnt_hapref"): z = [_code_str(x) for x in v]
    elif k in ("vrnt_genpos", "vrnt_xoprob"): z = [_code_float(x) for x in v]
    else: z = [int(x) for x in v]
    return "(Some %s)" % Zl(z)
def _meta_term(d): return "(mkMeta %s)" % " ".join(_code_field(k, d[k]) for k in META_KEYS)
def _count(c): return "(inl %d%%nat)" % c if isinstance(c, int) else "(inr %s)" % Nl(c)
def _shapes(sh): return "[" + ";".join("(%d,%d)" % (a, b) for a, b in sh) + "]%nat"

def _consumed(pool, shapes):
    n = 0
    for sh in shapes:
        k = 1
        for d in sh: k *= d
        n += k
    return pool[:n]

def _xo_term(case):
    if "xoprob_f" in case: return E.lst(case["xoprob_f"], lambda v: E.q(Fraction(float(v))))
    return "(q10l %s)" % Zl(case["xoprob"])

def emit_case(case, out):
    if case.get("big") or case["kind"] == "audit":
        return None                                      # size-dependent paths / introspection: predicate only
    if "exc" in out:
        return "false"
    if case["kind"] == "session":
        terms = [emit_case(st, o) for st, o in zip(case["steps"], out["steps"])]
        if len(out["steps"]) != len(case["steps"]): return "false"
        terms = [t for t in terms if t is not None]
        return "(" + " && ".join(terms) + ")%bool" if terms else None
    if case["kind"] == "util":
        if any(len(sh) != 2 for sh in out["shapes"]): return "false"
        P = "(q10l %s)" % Zl(_consumed(case["pool"], out["shapes"]))
        G, S, X = Zl3(case["geno"]), Nl(case["sel"]), _xo_term(case)
        I = "(nz_shapes %s)" % _shapes(out["shapes"])
        if case["fn"] == "meiosis":
            return ("(let sh := reqs (snd (mat_meiosis %s %s %s (rng0 []))) in let r0 := rng0 (carve %s sh) in let m := mat_meiosis %s %s %s r0 in "
                    "zll_eqb (fst m) %s && zll_eqb (mat_meiosis_seg %s %s %s r0) %s && shapes_eqb (nz_shapes sh) %s)"
                    % (G, S, X, P, G, S, X, Zl2(out["res"]), G, S, X, Zl2(out["res"]), I))
        if case["fn"] == "dh":
            return ("(let sh := reqs (snd (mat_dh %s %s %s (rng0 []))) in let m := mat_dh %s %s %s (rng0 (carve %s sh)) in "
                    "zlll_eqb (fst m) %s && shapes_eqb (nz_shapes sh) %s)" % (G, S, X, G, S, X, P, Zl3(out["res"]), I))
        G2, S2 = Zl3(case["geno2"]), Nl(case["sel2"])
        return ("(let sh := reqs (snd (mat_mate %s %s %s %s %s (rng0 []))) in let m := mat_mate %s %s %s %s %s (rng0 (carve %s sh)) in "
                "zlll_eqb (fst m) %s && shapes_eqb (nz_shapes sh) %s)" % (G, G2, S, S2, X, G, G2, S, S2, X, P, Zl3(out["res"]), I))
    xc = case["xconfig"]
    if case.get("real_rng") is not None:
        # real PCG64 draws and real probabilities: shipped as the exact rationals of the binary64 values
        if len(case["geno"][0]) * len(case["xoprob"]) > 60 or sum(len(m) for m in out.get("drawn", [])) > 60:
            return None                                  # large provenance cases stay predicate-only
        Q = lambda v: E.q(Fraction(float(v)))
        xoq = E.lst(case["xoprob_f"], Q); pq = E.lst([u for m in out["drawn"] for r in m for u in r], Q)
    else:
        if any(len(sh) != 2 for sh in out["shapes"]): return "false"
        xoq = _xo_term(case); pq = "(q10l %s)" % Zl(_consumed(case["pool"], out["shapes"]))
    call = ("(mate_pool %s %s %s %s %s %s %s %d%%nat %s %s %s)"
            % (COQP[case["proto"]], Zl3(case["geno"]), xoq, _meta_term(out["meta_in"]),
               Nl2(xc) if xc else "[]", _count(case["nmating"]), _count(case["nprogeny"]), case["nself"], E.z(case["pc"]), E.z(case["fc"]), pq))
    if "error" in out:
        return "(agree_mate %s None)" % call
    names = [[ord(ch) for ch in s] for s in out["taxa"]]
    exp = ("(Some (mkProgeny %s %s %s %s %s %s %s %s %s %s %s))"
           % (Zl3(out["mat"]), Zl2(names), Zl(out["taxa_grp"]), Zl(out["taxa_grp_name"]), Zl(out["taxa_grp_stix"]), Zl(out["taxa_grp_spix"]),
              Zl(out["taxa_grp_len"]), _meta_term(out["meta"]), E.z(out["pc"]), E.z(out["fc"]), _shapes(out["shapes"])))
    return "(agree_mate %s %s)" % (call, exp)

# ------------------------------------------------------------------ independent predicate
def _counts(case):
    nc = len(case["xconfig"])
    nm = [case["nmating"]] * nc if isinstance(case["nmating"], int) else list(case["nmating"])
    np_ = [case["nprogeny"]] * nc if isinstance(case["nprogeny"], int) else list(case["nprogeny"])
    return nm, np_

def _valid(case):
    """is the call inside the domain on which mate() must succeed?"""
    proto = case["proto"]; npar = NPAR[proto]; xc = case["xconfig"]; n = len(case["geno"][0])
    if case.get("xwidth", npar) != npar or any(len(r) != npar for r in xc): return False
    nm, np_ = _counts(case)
    if len(nm) != len(xc) or len(np_) != len(xc): return False
    for r, a, b in zip(xc, nm, np_):
        used = set()
        if proto in ("SelfCross", "TwoWayCross"):
            if a * b > 0: used = set(r)
        elif proto == "ThreeWayCross":
            if a > 0: used |= {r[1], r[2]}
            if a * b > 0: used.add(r[0])
        elif a > 0: used = set(r)
        if any(i >= n or i < 0 for i in used): return False
    return True

# pedigree specification: ("F", i) founder i; ("X", f, m) offspring of f (female, copy 0) and m (male, copy 1); ("D", x) doubled haploid of x
def _ped(proto, row, nself):
    F = lambda i: ("F", i)
    if proto == "SelfCross": x = ("X", F(row[0]), F(row[0]))
    elif proto in ("TwoWayCross", "TwoWayDHCross"): x = ("X", F(row[0]), F(row[1]))
    elif proto in ("ThreeWayCross", "ThreeWayDHCross"): x = ("X", F(row[0]), ("X", F(row[1]), F(row[2])))
    else: x = ("X", ("X", F(row[2]), F(row[3])), ("X", F(row[0]), F(row[1])))
    for _ in range(nself): x = ("X", x, x)
    if proto.endswith("DHCross"): x = ("D", x)
    return x

def _gamete_leaves(x):
    """founder chromosome copies a gamete of individual x can carry"""
    if x[0] == "F": return {(x[1], 0), (x[1], 1)}
    if x[0] == "D": return _gamete_leaves(x[1])
    return _gamete_leaves(x[1]) | _gamete_leaves(x[2])
def _first_leaf(x):
    """the founder copy a gamete of x carries as long as no crossover happened anywhere (all meioses start in phase 0)"""
    if x[0] == "F": return (x[1], 0)
    return _first_leaf(x[1])
def _sides(x):
    """the individuals whose gametes form copy 0 and copy 1 of x"""
    return (x[1], x[1]) if x[0] == "D" else (x[1], x[2])

def _blocks(xopos):
    """maximal marker blocks inside which no crossover can happen: a new block starts at every marker with xoprob > 0"""
    p = len(xopos); cuts = [0] + [j for j in range(1, p) if xopos[j]] + [p]
    return [(cuts[i], cuts[i + 1]) for i in range(len(cuts) - 1) if cuts[i] < cuts[i + 1]]

def _mosaic_clauses(hap, src, geno, xopos, who):
    """hap: one chromosome copy; src: individual whose gamete it is"""
    bad = []
    leaves = _gamete_leaves(src); first = _first_leaf(src)
    for (a, b) in _blocks(xopos):
        cands = [first] if (a == 0 and not xopos[0]) else sorted(leaves)
        if not any(hap[a:b] == geno[c][i][a:b] for (i, c) in cands):
            bad.append("%s: markers %d..%d are not a segment of any chromosome copy of the designated parents %s"
                       % (who, a, b - 1, sorted(set(i for i, _ in cands))))
            break
    return bad

def _ref_meiosis(pop, sel, xoq, take):
    """spec-style reference: pop = list of (copy0, copy1); one fresh row of draws per selected individual"""
    out = []
    for s in sel:
        u = take(len(xoq)); ph = 0; g = []
        for j in range(len(xoq)):
            if u[j] < xoq[j]: ph ^= 1
            g.append(pop[s][ph][j])
        out.append(g)
    return out
def _ref_mate(fp, mp, fs, ms, xo, take):
    a = _ref_meiosis(fp, fs, xo, take); b = _ref_meiosis(mp, ms, xo, take)
    return list(zip(a, b))
def _rep(xs, cs): return [x for x, c in zip(xs, cs) for _ in range(c)]

def _reference(case):
    """expected progeny (before grouping) from the pedigree specification and the scripted draws"""
    proto = case["proto"]; xo = _xo_num(case); xc = case["xconfig"]; nm, np_ = _counts(case); nself = case["nself"]
    geno = case["geno"]; n = len(geno[0]); pos = [0]; pool = case["pool"]
    def take(k):
        v = pool[pos[0]:pos[0] + k]; pos[0] += k
        if len(v) < k: raise ScriptExhausted("reference ran out of draws")
        return v
    F = [(geno[0][i], geno[1][i]) for i in range(n)]
    col = lambda k: [r[k] for r in xc]
    tot = [a * b for a, b in zip(nm, np_)]
    def selfs(pop):
        for _ in range(nself):
            ix = list(range(len(pop))); pop = _ref_mate(pop, pop, ix, ix, xo, take)
        return pop
    def dh(pop, per):
        sel = _rep(list(range(len(pop))), per); g = _ref_meiosis(pop, sel, xo, take)
        return [(x, x) for x in g]
    npr = _rep(np_, nm)
    if proto == "SelfCross": return selfs(_ref_mate(F, F, _rep(col(0), tot), _rep(col(0), tot), xo, take))
    if proto == "TwoWayCross": return selfs(_ref_mate(F, F, _rep(col(0), tot), _rep(col(1), tot), xo, take))
    if proto == "TwoWayDHCross": return dh(selfs(_ref_mate(F, F, _rep(col(0), nm), _rep(col(1), nm), xo, take)), npr)
    if proto == "ThreeWayCross":
        f1 = _ref_mate(F, F, _rep(col(1), nm), _rep(col(2), nm), xo, take)
        return selfs(_ref_mate(F, f1, _rep(col(0), tot), _rep(list(range(len(f1))), npr), xo, take))
    if proto == "ThreeWayDHCross":
        f1 = _ref_mate(F, F, _rep(col(1), nm), _rep(col(2), nm), xo, take)
        return dh(selfs(_ref_mate(F, f1, _rep(col(0), nm), list(range(len(f1))), xo, take)), npr)
    ab = _ref_mate(F, F, _rep(col(2), nm), _rep(col(3), nm), xo, take)
    cd = _ref_mate(F, F, _rep(col(0), nm), _rep(col(1), nm), xo, take)
    if proto == "FourWayCross":
        return selfs(_ref_mate(ab, cd, _rep(list(range(len(ab))), npr), _rep(list(range(len(cd))), npr), xo, take))
    return dh(selfs(_ref_mate(ab, cd, list(range(len(ab))), list(range(len(cd))), xo, take)), npr)

def _rle_clauses(runs, nseg, src, first_leaf, allowed, code_of, xopos, who):
    """provenance of one run-length coded chromosome copy whose allele codes identify (founder, copy)"""
    npos = sum(1 for x in xopos if x)
    if nseg > npos + 1:
        return ["%s: %d segments, but only %d markers have xoprob > 0" % (who, nseg, npos)]
    for (j, code) in runs:
        if code not in allowed:
            return ["%s: allele code %d from marker %d is not a chromosome copy of the designated parents %s"
                    % (who, code, j, sorted(set(f for f, _ in src)))]
        if j > 0 and not xopos[j]:
            return ["%s: source copy changes at marker %d where xoprob == 0" % (who, j)]
        if j == 0 and not xopos[0] and code != code_of[first_leaf]:
            return ["%s: starts in allele code %d although xoprob[0] == 0 (must start in copy 0 of the designated parent)" % (who, code)]
    return []

def _pred_proto(case, out):
    bad = []
    valid = _valid(case)
    if "error" in out:
        if valid: return ["mate() raised %s: %s" % (out["error"], out["msg"])]
        if out["pc"] != case["pc"] or out["fc"] != case["fc"]: bad.append("counters advanced although mate() raised")
        if out["unchanged"]: bad.append("input pgmat changed although mate() raised: %s" % out["unchanged"])
        return bad
    if not valid:
        return ["mate() accepted an invalid call (xconfig width / count shape / parent index out of range)"]
    proto = case["proto"]; xc = case["xconfig"]; nm, np_ = _counts(case); geno = case["geno"]; p = len(case["xoprob"])
    xopos = [x > 0 for x in (case.get("xoprob_f") or case["xoprob"])]
    tot = [a * b for a, b in zip(nm, np_)]; N = sum(tot)
    cross_of = _rep(list(range(len(xc))), tot)
    big = bool(case.get("big")); mat = out.get("mat")
    if big:
        code_of = {(f, c): geno[c][f][0] for c in (0, 1) for f in range(len(geno[0]))}
        if len(set(code_of.values())) != len(code_of) or any(len(set(geno[c][f])) != 1 for c in (0, 1) for f in range(len(geno[0]))):
            return ["harness: large case without provenance coding"]
    if out["cls"] != "DensePhasedGenotypeMatrix": bad.append("result is a %s" % out["cls"])
    if out["mat_shape"] != [2, N, p]: return bad + ["progeny matrix has shape %s, expected [2, sum(nmating*nprogeny) = %d, %d]" % (out["mat_shape"], N, p)]
    if out["mat_dtype"] != "int8": bad.append("progeny matrix dtype %s" % out["mat_dtype"])
    # names, labels, counters
    want_names = [PREFIX[proto] + str(case["pc"] + k).zfill(7) for k in range(N)]
    if out["taxa"] != want_names:
        if sorted(out["taxa"] or []) == sorted(want_names): bad.append("progeny are not in cross-configuration order (names %s...)" % out["taxa"][:4])
        else: bad.append("progeny names %s..., expected %s..." % ((out["taxa"] or [])[:3], want_names[:3]))
    if N and out["taxa_dtype"] != "object": bad.append("taxa dtype %s" % out["taxa_dtype"])
    want_grp = [case["fc"] + c for c in cross_of]
    if out["taxa_grp"] != want_grp: bad.append("family labels %s, expected %s" % (out["taxa_grp"][:6], want_grp[:6]))
    if out["taxa_grp_dtype"] != "int64": bad.append("taxa_grp dtype %s" % out["taxa_grp_dtype"])
    fam = [(case["fc"] + i, t) for i, t in enumerate(tot) if t > 0]
    st = []; acc = 0
    for _, t in fam: st.append(acc); acc += t
    if (out["taxa_grp_name"], out["taxa_grp_stix"], out["taxa_grp_len"]) != ([f for f, _ in fam], st, [t for _, t in fam]) \
       or out["taxa_grp_spix"] != [a + t for a, (_, t) in zip(st, fam)]:
        bad.append("taxa group index (name/stix/spix/len) does not describe the families")
    if out["pc"] != case["pc"] + N: bad.append("progeny_counter advanced by %d, %d progeny produced" % (out["pc"] - case["pc"], N))
    if out["fc"] != case["fc"] + len(xc): bad.append("family_counter advanced by %d, %d crosses" % (out["fc"] - case["fc"], len(xc)))
    # provenance: follow each progeny by its name (robust against a reordering by group_taxa)
    byname = {nm_: k for k, nm_ in enumerate(want_names)}
    order_ok = out["taxa"] == want_names
    for pos_, nm_ in enumerate(out["taxa"] or []):
        if nm_ not in byname: continue
        k = byname[nm_]
        ped = _ped(proto, xc[cross_of[k]], case["nself"])
        s0, s1 = _sides(ped)
        if big:
            for c, sd in ((0, s0), (1, s1)):
                lv = _gamete_leaves(sd)
                bad += _rle_clauses(out["rle"][c][pos_], out["nseg"][c][pos_], lv, _first_leaf(sd), {code_of[l] for l in lv}, code_of, xopos,
                                    "progeny %s (row %d, cross %d) copy %d" % (nm_, pos_, cross_of[k], c))
        else:
            bad += _mosaic_clauses(mat[0][pos_], s0, geno, xopos, "progeny %s copy 0" % nm_)
            bad += _mosaic_clauses(mat[1][pos_], s1, geno, xopos, "progeny %s copy 1" % nm_)
        if len(bad) > 6: break
    if proto.endswith("DHCross") and not (out["dh_equal"] if big else mat[0] == mat[1]): bad.append("doubled-haploid progeny are not homozygous")
    # draw-for-draw reference (scripted cases)
    if case.get("real_rng") is None:
        try:
            ref = _reference(case)
            want = [[list(a) for a, _ in ref], [list(b) for _, b in ref]]
            if order_ok and mat != want:
                k = next((k for k in range(N) if mat[0][k] != want[0][k] or mat[1][k] != want[1][k]), None)
                bad.append("progeny %s differs from the pedigree specification evaluated on the same draws" % (want_names[k] if k is not None else "?"))
        except ScriptExhausted:
            bad.append("reference ran out of draws")
    if not out["ranges_ok"]: bad.append("uniform draws requested outside [0,1)")
    if any(len(s) != 2 or s[1] != p for s in out["shapes"]): bad.append("uniform matrices not of shape (n, nmarkers): %s" % out["shapes"][:4])
    # metadata carried over, inputs untouched
    for k in META_KEYS:
        if out["meta"][k] != out["meta_in"][k] or out["meta_dtype"][k] != out["meta_in_dtype"][k]:
            bad.append("marker metadata %s not carried over (%s -> %s)" % (k, str(out["meta_in"][k])[:40], str(out["meta"][k])[:40]))
    if out["unchanged"]: bad.append("input pgmat modified: %s" % out["unchanged"])
    if not out["args_unchanged"]: bad.append("xconfig/nmating/nprogeny arrays modified")
    if out.get("decoy_used"): bad.append("draws were requested from a generator that had been replaced through the rng setter")
    al = out.get("alias") or {}
    if al.get("mat_in"): bad.append("progeny matrix shares memory with the parental matrix")
    if al.get("phases"): bad.append("the two chromosome copies of the progeny matrix share memory")
    if al.get("readonly"): bad.append("progeny matrix is read-only")
    if al.get("args"): bad.append("a progeny array shares memory with xconfig/nmating/nprogeny")
    if al.get("reached") or al.get("write_error"):
        bad.append("writing into the progeny matrix/labels reached the inputs: %s %s" % (al.get("reached"), al.get("write_error", "")))
    return bad

EXPECT_PACKAGE = sorted(PROTOS + ["MatingProtocol", "util"])
EXPECT_FUNCS = {"pybrops.breed.prot.mate.util": {"mat_meiosis": "function(geno,sel,xoprob,rng)", "mat_dh": "function(geno,sel,xoprob,rng)",
                                                 "mat_mate": "function(fgeno,mgeno,fsel,msel,xoprob,rng)"},
                "pybrops.core.util.mate": {"dense_meiosis": "function(geno,sel,xoprob,rng)", "dense_dh": "function(geno,sel,xoprob,rng)",
                                           "dense_cross": "function(fgeno,mgeno,fsel,msel,xoprob,rng)"}}
EXPECT_OWN = ["family_counter", "mate", "nparent", "progeny_counter", "rng"]
EXPECT_SIG = {"__init__": ["self", "progeny_counter", "family_counter", "rng", "kwargs"],
              "mate": ["self", "pgmat", "xconfig", "nmating", "nprogeny", "miscout", "nself", "kwargs"]}
# entry points that exist and are deliberately not driven, with the reason
SKIPPED = {"MatingProtocol": "abstract interface (mate and nparent are abstract, no code of its own)",
           "check_is_<Protocol>": "isinstance type guards, not part of the property"}

def _pred_audit(out):
    """every public class, function and parameter of the anchored modules is either driven by this module or listed in SKIPPED;
    anything new fails the check until it is classified here"""
    bad = []
    if out["package"] != EXPECT_PACKAGE:
        bad.append("entry-point audit: modules of pybrops.breed.prot.mate are %s, classified are %s" % (out["package"], EXPECT_PACKAGE))
    for mod, want in EXPECT_FUNCS.items():
        if out["modules"].get(mod) != want:
            bad.append("entry-point audit: %s defines %s, classified are %s" % (mod, out["modules"].get(mod), want))
    for proto in PROTOS:
        mod = "pybrops.breed.prot.mate." + proto
        have = out["modules"].get(mod, {})
        want = {proto: "class", "check_is_" + proto: "function(v,vname)"}
        if have != want: bad.append("entry-point audit: %s defines %s, classified are %s" % (mod, have, want))
        c = out["classes"].get(proto)
        if c is None: continue
        if c["own"] != EXPECT_OWN: bad.append("entry-point audit: %s has public members %s, classified are %s" % (proto, c["own"], EXPECT_OWN))
        if c["sig"] != EXPECT_SIG: bad.append("entry-point audit: %s signatures %s, classified are %s" % (proto, c["sig"], EXPECT_SIG))
        if c["bases"] != ["MatingProtocol"]: bad.append("entry-point audit: %s derives from %s" % (proto, c["bases"]))
    have = out["modules"].get("pybrops.breed.prot.mate.MatingProtocol", {})
    if have != {"MatingProtocol": "class", "check_is_MatingProtocol": "function(v,vname)"}:
        bad.append("entry-point audit: MatingProtocol module defines %s" % have)
    return bad

def _phase_path_ok(g, c0, c1, xopos):
    """is g a mosaic of c0/c1 that starts in copy 0 unless xoprob[0] > 0 and switches only where xoprob > 0 ?"""
    ok = [True, bool(xopos[0])] if g else [True, True]
    for j in range(len(g)):
        m = [g[j] == c0[j], g[j] == c1[j]]
        if j == 0: ok = [ok[0] and m[0], ok[1] and m[1]]
        else:
            sw = bool(xopos[j])
            ok = [m[0] and (ok[0] or (sw and ok[1])), m[1] and (ok[1] or (sw and ok[0]))]
        if not any(ok): return False
    return True

def _pred_util(case, out):
    bad = []
    fn = case["fn"]; p = len(case["xoprob"]); k = len(case["sel"]); xopos = [x > 0 for x in (case.get("xoprob_f") or case["xoprob"])]
    want_shape = [k, p] if fn == "meiosis" else [2, k, p]
    if out["shape"] != want_shape: return ["result shape %s, expected %s" % (out["shape"], want_shape)]
    if out["dtype"] != "int8": bad.append("result dtype %s" % out["dtype"])
    if case.get("big"):                                  # meiosis only: provenance from the run-length coded gametes
        G = case["geno"]; code_of = {(f, c): G[c][f][0] for c in (0, 1) for f in range(len(G[0]))}
        for i, sidx in enumerate(case["sel"]):
            lv = {(sidx, 0), (sidx, 1)}
            bad += _rle_clauses(out["rle"][i], out["nseg"][i], lv, (sidx, 0), {code_of[l] for l in lv}, code_of, xopos, "gamete %d (individual %d)" % (i, sidx))
            if len(bad) > 4: break
        if any(len(sh) != 2 or sh[1] != p for sh in out["shapes"]) or sum(sh[0] for sh in out["shapes"] if len(sh) == 2) != k:
            bad.append("uniform requests %s do not add up to (%d, %d)" % (out["shapes"][:4], k, p))
        if not out["ranges_ok"]: bad.append("uniform draws requested outside [0,1)")
        if not out["unchanged"]: bad.append("an input array was modified")
        return bad + _alias_util(out)
    res = out["res"]; layers = [res] if fn == "meiosis" else res
    srcs = [(case["geno"], case["sel"])] if fn == "meiosis" else ([(case["geno"], case["sel"])] * 2 if fn == "dh" else
                                                                  [(case["geno"], case["sel"]), (case["geno2"], case["sel2"])])
    pos = [0]
    def take(n):
        v = case["pool"][pos[0]:pos[0] + n]; pos[0] += n; return v
    for li, (layer, (G, S)) in enumerate(zip(layers, srcs)):
        for i, s in enumerate(S):
            if not _phase_path_ok(layer[i], G[0][s], G[1][s], xopos):
                bad.append("gamete %d of layer %d is not a mosaic of the two copies of individual %d switching only where xoprob > 0" % (i, li, s)); break
        if fn == "dh" and li == 1: continue
        ref = _ref_meiosis([(G[0][i], G[1][i]) for i in range(len(G[0]))], S, _xo_num(case), take)
        if layer != ref: bad.append("layer %d differs from the per-marker specification on the same draws" % li)
    if fn == "dh" and res[0] != res[1]: bad.append("doubled haploid not homozygous")
    nreq = 2 if fn == "mate" else 1
    if [sh for sh in out["shapes"] if sh[:1] != [0]] != [sh for sh in [[k, p]] * nreq if sh[0]]:
        bad.append("uniform requests %s, expected %s" % (out["shapes"], [[k, p]] * nreq))
    if not out["ranges_ok"]: bad.append("uniform draws requested outside [0,1)")
    if not out["unchanged"]: bad.append("an input array was modified")
    bad += _alias_util(out)
    return bad

def _alias_util(out):
    al = out.get("alias") or {}; bad = []
    if al.get("in"): bad.append("the result shares memory with an input array")
    if al.get("phases"): bad.append("the two chromosome copies of the result share memory")
    if al.get("readonly"): bad.append("the result is read-only")
    return bad

def pred(case, out):
    if "exc" in out:
        return ["implementation raised %s: %s" % (out["exc"], out["msg"])]
    if case["kind"] == "audit": bad = _pred_audit(out)
    elif case["kind"] == "session":
        bad = []
        if len(out["steps"]) != len(case["steps"]): bad.append("session: %d of %d calls ran" % (len(out["steps"]), len(case["steps"])))
        for k, (st, o) in enumerate(zip(case["steps"], out["steps"])):
            bad += ["call %d of a session on one protocol object (%s): %s" % (k + 1, st.get("update", "first call"), b) for b in _pred_proto(st, o)]
    else: bad = _pred_proto(case, out) if case["kind"] == "proto" else _pred_util(case, out)
    seen = []
    for b in bad:
        if b not in seen: seen.append(b)
    return seen[:8]

def classify(case, out, clauses):
    """a failure belongs to the known finding only if *every* clause is explained by it and its input pattern is present"""
    if case["kind"] != "proto" or not clauses: return None
    nm, np_ = _counts(case)
    if len(nm) != len(case["xconfig"]) or len(np_) != len(case["xconfig"]): return None
    N = sum(a * b for a, b in zip(nm, np_))
    if 0 <= case["pc"] < 10 ** 7 <= case["pc"] + N - 1 and all(c.startswith("progeny are not in cross-configuration order") for c in clauses):
        return F_NAME
    return None

def nontrivial(case, out):
    if "exc" in out or "error" in out: return False
    if case.get("big"):                                  # a crossover fired somewhere: some chromosome has more than one run
        ns = out.get("nseg") or []
        return any(n > 1 for layer in ns for n in (layer if isinstance(layer, list) else [layer]))
    if case["kind"] == "audit": return False
    if case["kind"] == "session": return any(nontrivial(st, o) for st, o in zip(case["steps"], out["steps"]))
    xo = _xo_num(case); p = len(xo)
    def fired(shapes):
        pos = 0
        for sh in shapes:
            if len(sh) != 2: return False
            for t in range(sh[0] * sh[1]):
                if pos + t < len(case["pool"]) and case["pool"][pos + t] < xo[t % p]: return True
            pos += sh[0] * sh[1]
        return False
    if case["kind"] == "util":
        G = case["geno"]
        return any(G[0][s] != G[1][s] for s in case["sel"]) and fired(out["shapes"])
    if case.get("real_rng") is not None:
        return len(out.get("mat", [[]])[0]) > 0
    G = case["geno"]; nm, np_ = _counts(case)
    differ = False
    for r, a, b in zip(case["xconfig"], nm, np_):
        if a * b == 0: continue
        haps = [tuple(G[c][i]) for i in set(r) for c in (0, 1)]
        if len(set(haps)) >= 2: differ = True
    return differ and fired(out["shapes"])

def _size_bucket(n):
    return "> 2^22" if n > 2 ** 22 else ("2^16..2^22" if n >= 2 ** 16 else "< 2^16")

def describe(case, out):
    if case["kind"] == "audit": return {"target": "entry-point audit"}
    if case["kind"] == "session":
        ups = [st.get("update") for st in case["steps"][1:]]
        return {"target": "session:" + case["proto"], "calls": len(case["steps"]),
                "mat_update": "+".join(u["mat"] for u in ups), "xo_update": "+".join(u["xo"] for u in ups),
                "counters": "+".join(u["counters"] for u in ups), "rng": "+".join(u["rng"] for u in ups)}
    if case["kind"] == "util":
        return {"target": case["module"] + "_" + case["fn"], "rows": min(len(case["sel"]), 9), "markers": min(len(case["xoprob"]), 25),
                "draws_per_call": _size_bucket(len(case["sel"]) * len(case["xoprob"])), "tiny_xoprob": "xoprob_f" in case and not case.get("big"),
                "sel_index": "> 255" if max(case["sel"] or [0]) > 255 else ("> 127" if max(case["sel"] or [0]) > 127 else "<= 127")}
    nm, np_ = _counts(case)
    N = sum(a * b for a, b in zip(nm, np_)) if len(nm) == len(np_) else -1
    rows = max([sum(nm), N] if len(nm) == len(np_) else [0])
    return {"target": case["proto"], "ncross": len(case["xconfig"]), "nself": case["nself"], "markers": min(len(case["xoprob"]), 25),
            "draws_per_call": _size_bucket(rows * len(case["xoprob"])),
            "ntaxa": len(case["geno"][0]), "progeny": "0" if N == 0 else ("1-4" if N <= 4 else ("5-12" if N <= 12 else "13+")),
            "counts": ("scalar" if isinstance(case["nmating"], int) else "array") + "/" + ("scalar" if isinstance(case["nprogeny"], int) else "array"),
            "draws": "pcg64" if case.get("real_rng") is not None else "scripted", "raised": "error" in out or "exc" in out,
            "tiny_xoprob": "xoprob_f" in case and case.get("real_rng") is None, "pgmat_route": case["meta"].get("route", "ctor"),
            "prot_route": case.get("prot_route", "ctor"), "miscout": bool(case.get("miscout")), "extra_kwargs": bool(case.get("kw")),
            "parent_index": (lambda m: "> 255" if m > 255 else ("> 127" if m > 127 else "<= 127"))(max([i for r in case["xconfig"] for i in r] or [0])),
            "progeny_gt_255": N > 255, "markers_gt_255": len(case["xoprob"]) > 255,
            "meta_shared_with_parents": len((out.get("alias") or {}).get("meta_shared", [])),
            "xoprob_zero": any(x == 0 for x in case["xoprob"]), "xoprob_half": any(x == 512 for x in case["xoprob"]),
            "self_in_row": any(len(set(r)) < len(r) for r in case["xconfig"]) if NPAR[case["proto"]] > 1 else False}

def shrink(case, fails):
    import copy
    cur = copy.deepcopy(case)
    if cur["kind"] != "proto" or cur.get("big") or max([i for r in cur["xconfig"] for i in r] or [0]) > 127 or len(cur["xoprob"]) > 255: return cur      # a size-dependent failure disappears when shrunk
    def still(t):
        """still failing, and still not a known finding"""
        try: o = run_impl(t)
        except Exception as e: o = {"exc": type(e).__name__, "msg": str(e)[:200]}
        cl = pred(t, o)
        return bool(cl) and classify(t, o, cl) is None
    while len(cur["xconfig"]) > 1:
        t = copy.deepcopy(cur); t["xconfig"] = t["xconfig"][:-1]
        for k in ("nmating", "nprogeny"):
            if not isinstance(t[k], int): t[k] = t[k][:-1]
        if still(t): cur = t
        else: break
    while cur["nself"] > 0:
        t = copy.deepcopy(cur); t["nself"] -= 1
        if still(t): cur = t
        else: break
    for k in ("nmating", "nprogeny"):
        for v in (1, 2):
            t = copy.deepcopy(cur); t[k] = v
            if still(t): cur = t; break
    return cur

# ------------------------------------------------------------------ translator hook
def translate(repo, gen_dir):
    """regenerate Gen/C01_Kernel.v (meiosis kernel, mat_dh/mat_mate/dense_*, the statements of every protocol's mate(), the metadata
    hand-over) from the current source; fail closed"""
    from translate import c01_kernel
    return [c01_kernel.translate(repo, gen_dir)]
