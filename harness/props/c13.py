"""C13 — relationship (coancestry / kinship) matrices: correspondence between Model/C13_Coanc.v and
Dense{Molecular,VanRaden,Yang,GeneralizedWeighted}CoancestryMatrix (+ factories, + DenseCoancestryMatrix views and
summaries), plus the independent predicate (published formulas evaluated with exact fractions)."""
import math
from fractions import Fraction
import numpy
import coqemit as E

ID = "C13"
LEVEL_TEXT = ("Coq theorems over an exact-rational model of the four from_gmat estimators and of the DenseCoancestryMatrix views/summaries: "
              "molecular coancestry = twice the mean identity-by-state probability (haploid and diploid; on an allele table and on the phased array as stored), "
              "kinship = coancestry/2, matrices square and symmetric, x'Gx >= 0 for every x as a non-negatively weighted sum of squares (all four estimators, "
              "all sizes), labels carried, taxa permutation/sub-selection/repetition commutes with the estimator for fixed reference frequencies (and provably "
              "not for re-estimated ones), max/min attained bounds, mean, max_inbreeding = largest diagonal entry, checked two-sided inverse (also for the kinship "
              "format), min_inbreeding = 1/1'G^-1 1 is the attained minimum of x'Gx over sum(x)=1, soundness of the LDL' eigenvalue-margin certificate, and "
              "estimated reference frequencies always give a singular matrix (1'G1 = 0); the model is tied to the code by evaluating it inside Coq against the "
              "implementation's outputs (exact on dyadic grids, 2^-30 otherwise, and within 2^-30 of an input-derived scale bound so that tiny weights / "
              "frequencies are not compared loosely) for every class, factory, format and argument form, on genotype matrices obtained through the library's "
              "own routes (copies, select_taxa, mat setter, in-place update after warm-up calls, grouping); the kernel expressions of the four from_gmat "
              "estimators, of the argument range checks, of every kinship halving, of min_inbreeding / inverse / is_positive_semidefinite and the label / "
              "factory wiring are regenerated from the source on every run (Gen/C13_Kernel.v; the label table shows every from_gmat handing copies of the six label arrays: C13_labels_copied), the estimators assembled from them are proved Leibniz-equal to "
              "the hand model and the theorems are restated about them; Yang's square-root scaling is proved equal (over the reals) to the rational closed "
              "form; an implementation-level lifecycle check (copies equal and independent, relationship-side select_taxa, multi-call sessions with in-place "
              "and setter updates equal to a fresh object in the same state, aliasing with the source, every public entry point classified by introspection)")
LEVEL_NOTE = ("trusted: Coq kernel + vm_compute; numpy/BLAS float arithmetic is compared, not modelled: exact equality where every operation is exact "
              "(dyadic grids), else 2^-30 relative against the exact rational; square roots (Yang) are not modelled (rational closed form); "
              "numpy.linalg.inv/eigvals compared only on matrices certified well-conditioned / with an exact, proved-sound LDL' margin, and inside Coq only "
              "up to 8 taxa (above that by the exact-fraction predicate); theorems are about the Gallina model, the tie to the code is differential on generated inputs")
TECHNIQUE = "Coq proof over an exact-rational executable model; in-Coq vm_compute correspondence with the implementation"
PROPS = "Props/C13.v"
IMPORTS = "From PV Require Import Lib.Common Model.C13_Coanc.\nImport String.\nLocal Open Scope Q_scope."
SHARD = 12
RULE = ("first case = entry-point audit (every public class / method / parameter of pybrops.popgen.cmat is covered or listed in SKIPPED, else a violation); "
        "every other case additionally carries route (how the genotype matrix object is obtained: ctor|copy|deepcopy|method_deepcopy|select_taxa from a larger "
        "population|mat setter after warm-up on another matrix|in-place overwrite after warm-up|grouped) and subroute (taxa selected by the harness or by "
        "gmat.select_taxa); weights scaled by 2^-40..2^+20 and frequencies 2^-k / 1-2^-k (k = 8..40), with exact zeros beside them; "
        "case = (estimator mol|vr|yang|gw, class or factory, phased|unphased, ploidy 1..4, allele matrix, labels or none, reference-frequency argument "
        "none|scalar|array, marker-weight argument none|scalar|array, taxa index list (permutation / subset / with repeats), accessor index pair, "
        "eigenvalue tolerance); one PRNG; a fixed sweep (every estimator x phased/unphased x ploidy 1,2 x six tiny shapes, plus indefinite matrices from "
        "negative ndarray weights) then random cases: n in 1..10 (thorough ..16), markers 0..12 (thorough ..32) with powers of two over-represented "
        "(exact regime), columns forced fixed-0 / fixed-max / heterozygous / polymorphic, duplicated taxa, frequencies on dyadic grids, 20-bit dyadics and "
        "arbitrary binary64 values (rounding regime), endpoints 0 and 1, Integral scalars, out-of-range and wrong-length arguments, unsupported ploidy; "
        "non-trivial = n >= 2, at least one polymorphic marker, finite result; distinct by SHA-256 of the case")
TRUSTED = ["harness/translate/c13_kernel.py + pyexpr.py (fail-closed translators of the kernel expressions; a construct outside the fragment or a changed statement shape is an error of the check)",
           "BLAS matrix products / numpy reductions: compared exactly on dyadic grids (every partial sum representable), else within 2^-30 of the exact rational",
           "numpy.linalg.inv and eigvals are compared only where the exact inverse (checked G*H = I in Q) is well-conditioned "
           "(n*max|G|*max|H| <= 1000) and where an exact LDL' certificate puts the smallest eigenvalue clear of the threshold",
           "the Gauss-Jordan and LDL' routines of the model are untrusted search procedures: their results are accepted only through exact checks"]
ASSUMPTIONS = ["allele counts in 0..ploidy, int8 storage as the genotype-matrix constructors require; at least one taxon",
               "Yang: 1/sqrt(ploidy p(1-p)) applied to both factors is modelled as division by ploidy p(1-p) (proved equal over the reals: C13_kernel_yang_sqrt)"]

EST = ("mol", "vr", "yang", "gw")
BIG_N = 8
# how the genotype matrix object is obtained (the library's own routes, not only the constructor): each estimator must see the
# state at the call, whatever was computed on the object before
ROUTES = ("ctor", "ctor", "copy", "deepcopy", "method_deepcopy", "select_taxa", "mat_setter", "inplace", "grouped")

# ------------------------------------------------------------------ entry points (fail closed: see _audit)
COVERED_CLASSES = {
    "DenseCoancestryMatrix": "views, accessors, summaries, inverse, copies, selection, sessions (through the four concrete classes)",
    "DenseMolecularCoancestryMatrix": "from_gmat", "DenseVanRadenCoancestryMatrix": "from_gmat",
    "DenseYangCoancestryMatrix": "from_gmat", "DenseGeneralizedWeightedCoancestryMatrix": "from_gmat",
    "DenseMolecularCoancestryMatrixFactory": "from_gmat", "DenseVanRadenCoancestryMatrixFactory": "from_gmat",
    "DenseYangCoancestryMatrixFactory": "from_gmat", "DenseGeneralizedWeightedCoancestryMatrixFactory": "from_gmat"}
SKIPPED = {
    "CoancestryMatrix": "abstract interface, no code of its own",
    "CoancestryMatrixFactory": "abstract interface, no code of its own",
    "DenseCoancestryMatrixFactory": "base class; its from_gmat delegates to the abstract DenseCoancestryMatrix.from_gmat (no estimator)",
    "DenseCoancestryMatrix.apply_jitter": "random diagonal perturbation drawn from the global numpy stream; not a clause of C13 (reproducibility: C08)",
    "DenseCoancestryMatrix.to_pandas": "persistence / tabular export: property C16", "DenseCoancestryMatrix.to_csv": "property C16",
    "DenseCoancestryMatrix.to_hdf5": "property C16", "DenseCoancestryMatrix.from_pandas": "property C16",
    "DenseCoancestryMatrix.from_csv": "property C16", "DenseCoancestryMatrix.from_hdf5": "property C16"}
# public methods / properties defined by the covered classes, with the parameters the driver exercises
COVERED_METHODS = {
    "__init__": {"self", "mat", "taxa", "taxa_grp", "kwargs"},
    "from_gmat": {"cls", "self", "gmat", "p_anc", "mkrwt", "afreq", "kwargs"},
    "mat_asformat": {"self", "format"}, "coancestry": {"self", "args", "kwargs"}, "kinship": {"self", "args", "kwargs"},
    "is_positive_semidefinite": {"self", "eigvaltol"}, "max_inbreeding": {"self", "format"}, "min_inbreeding": {"self", "format"},
    "inverse": {"self", "format"}, "max": {"self", "format", "axis"}, "min": {"self", "format", "axis"},
    "mean": {"self", "format", "axis", "dtype"},
    "mat": {"self"}, "taxa": {"self"}, "taxa_grp": {"self"}, "taxa_grp_name": {"self"}, "taxa_grp_stix": {"self"},
    "taxa_grp_spix": {"self"}, "taxa_grp_len": {"self"}}

# ------------------------------------------------------------------ generation
def _pow2(k): return k > 0 and (k & (k - 1)) == 0

def _gen_mat(rng, n, m, ploidy, phased):
    kinds = []
    for j in range(m):
        k = rng.random()
        kinds.append("fix0" if k < 0.12 else "fixp" if k < 0.24 else "het" if k < 0.32 else "poly")
    dos = [[0] * m for _ in range(n)]
    for j, kind in enumerate(kinds):
        for i in range(n):
            dos[i][j] = {"fix0": 0, "fixp": ploidy, "het": ploidy // 2 if ploidy > 1 else rng.randint(0, 1), "poly": rng.randint(0, ploidy)}[kind]
    if n >= 2 and rng.random() < 0.25:                       # duplicated taxon
        a, b = rng.sample(range(n), 2); dos[a] = list(dos[b])
    if not phased:
        return dos
    mat = [[[0] * m for _ in range(n)] for _ in range(ploidy)]
    for i in range(n):
        for j in range(m):
            for ph in rng.sample(range(ploidy), dos[i][j]): mat[ph][i][j] = 1
    return mat

def _gen_freq(rng, m, est, n, allow_bad=True):
    k = rng.random()
    if k < 0.34: return None
    grid = lambda: rng.choice([rng.randint(1, 15) / 16.0, rng.randint(1, 63) / 64.0, 0.5, 0.25, 0.75])
    # "ugly": 20-bit dyadics (products exceed 53 bits, so the floats round: regime T) - cheap exact rationals for the model
    # (Yang divides by p(1-p): every float result rounds anyway, so coarse grids keep the model's rationals small)
    if est == "yang": ugly = (lambda: rng.randint(1, 1023) / 1024.0) if m <= 6 else grid
    else: ugly = lambda: rng.randint(2 ** 14, 2 ** 20 - 2 ** 14) / float(2 ** 20)
    # arbitrary binary64 values (53-bit numerators) only for few taxa: the exact inverse / LDL' in Coq grow with n
    classic = (lambda: rng.choice([0.1, 0.3, 1.0 / 3.0, 0.7, rng.uniform(0.02, 0.98)])) if n <= 4 else ugly
    # tiny / near-one frequencies (2^-k, 1 - 2^-k): exact zeros have tiny non-zero neighbours; every value is still a dyadic rational
    tiny = lambda: rng.choice([2.0 ** -rng.randint(8, 40), 1.0 - 2.0 ** -rng.randint(8, 40)])
    if (est != "yang" or m <= 6) and rng.random() < 0.12:
        if k < 0.56: return {"s": tiny()}
        a = [rng.choice([tiny, tiny, grid])() for _ in range(m)]
        if m and rng.random() < 0.4: a[rng.randrange(m)] = rng.choice([0.0, 1.0])
        return {"a": a}
    if k < 0.56:
        r = rng.random()
        if r < 0.45: return {"s": grid()}
        if r < 0.75: return {"s": rng.choice([ugly, classic])()}
        if r < 0.83: return {"s": rng.choice([0.0, 1.0])}
        if r < 0.90: return {"s": rng.choice([0, 1])}                       # Integral scalars are Real too
        return {"s": rng.choice([-0.25, 1.5, -1, 2, 1.0000000000000002])} if allow_bad else {"s": 0.5}
    r = rng.random()
    if r < 0.45: a = [grid() for _ in range(m)]
    elif r < 0.75:
        a = [ugly() for _ in range(m)]
        if m and rng.random() < 0.5: a[rng.randrange(m)] = classic()
    elif r < 0.87:
        a = [grid() for _ in range(m)]
        for _ in range(rng.randint(1, max(1, m // 2))):
            if m: a[rng.randrange(m)] = rng.choice([0.0, 1.0])
    elif r < 0.91 and m: a = [rng.choice([0.0, 1.0]) for _ in range(m)]      # every locus at an endpoint
    elif r < 0.95 and allow_bad:
        a = [grid() for _ in range(m)]
        if m: a[rng.randrange(m)] = rng.choice([-0.125, 1.25])
        else: a = [0.5]
    elif allow_bad: a = [grid() for _ in range(m + rng.choice([-1, 1]) if m else 1)]
    else: a = [grid() for _ in range(m)]
    return {"a": a}

def _gen_wt(rng, m, n):
    k = rng.random()
    if k < 0.3: return None
    grid = lambda: rng.randint(0, 64) / 16.0
    ugly = lambda: rng.randint(1, 2 ** 22) / float(2 ** 20)
    classic = (lambda: rng.choice([0.1, 1.0 / 3.0, 2.7, rng.uniform(0.0, 5.0)])) if n <= 4 else ugly
    if rng.random() < 0.2:                                                   # weights far from 1: 2^-40 .. 2^+20, still dyadic
        sc = 2.0 ** rng.choice([-40, -30, -20, -10, 10, 20])
        if k < 0.5: return {"s": rng.randint(1, 64) / 16.0 * sc}
        a = [rng.randint(0, 64) / 16.0 * sc for _ in range(m)]
        if m and rng.random() < 0.5: a[rng.randrange(m)] = 0.0                # exact zero next to tiny non-zeros
        if m and rng.random() < 0.3: a[rng.randrange(m)] = rng.randint(1, 64) / 16.0   # ... and next to an ordinary weight
        return {"a": a}
    if k < 0.5:
        r = rng.random()
        if r < 0.5: return {"s": grid()}
        if r < 0.7: return {"s": rng.choice([ugly, classic])()}
        if r < 0.8: return {"s": rng.choice([0, 1, 2, 0.0])}
        return {"s": rng.choice([-0.5, -1, -1e-9])}
    r = rng.random()
    if r < 0.5: a = [grid() for _ in range(m)]
    elif r < 0.8:
        a = [ugly() for _ in range(m)]
        if m and rng.random() < 0.5: a[rng.randrange(m)] = classic()
    elif r < 0.86:
        a = [grid() for _ in range(m)]
        for _ in range(rng.randint(1, max(1, m // 2))):
            if m: a[rng.randrange(m)] = 0.0
    elif r < 0.94:                                                           # ndarray weights are not sign-checked
        a = [grid() * rng.choice([1, -1, -1]) for _ in range(m)]
        if m: a[rng.randrange(m)] = -rng.randint(1, 32) / 16.0
    else: a = [grid() for _ in range(m + rng.choice([-1, 1]) if m else 1)]
    return {"a": a}

def _one(rng, tier, est=None, n=None, m=None, ploidy=None, phased=None):
    big = tier != "quick"
    est = est or rng.choice(EST)
    if phased is None: phased = rng.random() < 0.4
    if ploidy is None:
        if est == "mol": ploidy = (3 if phased else 4) if rng.random() < 0.06 else rng.choice([1, 2, 2])
        else: ploidy = rng.choice([1, 2, 2, 2, 2, 4 if not phased else 3])
    if n is None:
        n = rng.choice([1, 2, 2, 3, 4, 4, 5, 6, 8, 8]) if rng.random() < 0.8 else rng.randint(1, 16 if big else 10)
    if m is None:
        r = rng.random()
        if r < 0.02: m = 0
        elif r < 0.5: m = rng.choice([1, 2, 4, 8, 8, 16] + ([32] if big else []))
        else: m = rng.randint(1, 24 if big else 12)
    mat = _gen_mat(rng, n, m, ploidy, phased)
    lab = rng.random()
    taxa = ["t%d" % rng.randint(0, 99) for _ in range(n)] if lab < 0.8 else None       # repeated labels are allowed
    grp = [rng.randint(0, 3) for _ in range(n)] if lab < 0.55 or lab > 0.93 else None
    case = {"est": est, "factory": rng.random() < 0.3, "kind": "phased" if phased else "unphased", "ploidy": ploidy, "mat": mat,
            "taxa": taxa, "grp": grp, "pref": None, "wt": None}
    if est in ("vr", "yang", "gw"): case["pref"] = _gen_freq(rng, m, est, n)
    if est == "gw": case["wt"] = _gen_wt(rng, m, n)
    r = rng.random()
    if r < 0.4: sel = rng.sample(range(n), n)
    elif r < 0.8: sel = rng.sample(range(n), rng.randint(1, n))
    else: sel = [rng.randrange(n) for _ in range(rng.randint(1, n + 1))]
    case["sel"] = sel
    case["ij"] = [rng.randrange(n), rng.randrange(n)]
    case["tol"] = rng.choice([1e-3, 0.125, 0.5, 1.0, 2.0, 8.0, 100.0])
    case["route"] = rng.choice(ROUTES)
    case["subroute"] = rng.choice(["index", "select"])
    if case["route"] == "grouped":
        # labels already in (group, name) order and unique: grouping sorts with the identity permutation, the matrix keeps its order
        case["taxa"] = ["t%02d" % k for k in sorted(rng.sample(range(100), n))]
        case["grp"] = sorted(rng.randint(0, 3) for _ in range(n))
    return case

def gen_cases(rng, tier):
    cases = [{"audit": True}]
    # systematic corner sweep: every estimator x {unphased, phased} x ploidy x tiny sizes, with default arguments
    for est in EST:
        for phased in (False, True):
            for ploidy in (1, 2):
                for (n, m) in ((1, 1), (2, 1), (1, 4), (3, 2), (4, 4), (2, 8)):
                    c = _one(rng, tier, est=est, n=n, m=m, ploidy=ploidy, phased=phased)
                    cases.append(c)
    # indefinite matrices (negative ndarray weights are accepted by the code, outside the property's quantifier): they separate
    # "largest diagonal entry" from "largest entry" and exercise the summaries on matrices that are not Gram matrices
    for (n, m) in ((3, 4), (4, 3), (5, 8), (6, 5)):
        c = _one(rng, tier, est="gw", n=n, m=m, ploidy=2, phased=False)
        c["wt"] = {"a": [-(rng.randint(1, 32) / 16.0) for _ in range(m)]}
        c["pref"] = rng.choice([None, {"s": 0.5}])
        cases.append(c)
    for (n, m) in ((3, 4), (2, 3)):                          # ... with all eigenvalues inside (-1, 0]
        c = _one(rng, tier, est="gw", n=n, m=m, ploidy=2, phased=False)
        c["wt"] = {"a": [-1.0 / 16] * m}; c["pref"] = {"s": 0.5}
        cases.append(c)
    # wide matrices: more markers than an int8 (127) / uint8 (255) accumulator can count, few taxa, mostly homozygous and
    # similar taxa so that the Gram sums are large (a narrow-integer intermediate wraps only here)
    for est in EST:
        for (n, m, ploidy, phased) in ((2, 130, 2, False), (3, 160, 2, True), (2, 260, 2, False), (2, 140, 1, False)) if tier == "quick" else \
                ((2, 130, 2, False), (3, 160, 2, True), (2, 260, 2, False), (2, 140, 1, False), (3, 300, 2, False), (2, 520, 2, True), (4, 200, 1, True)):
            c = _one(rng, tier, est=est, n=n, m=m, ploidy=ploidy, phased=phased)
            mat = c["mat"]
            for j in range(m):
                if rng.random() < 0.85:
                    v = rng.choice([0, ploidy, ploidy])
                    if phased:
                        for ph in range(ploidy):
                            for i in range(n): mat[ph][i][j] = 1 if v else 0
                    else:
                        for i in range(n): mat[i][j] = v
            if c["pref"] is not None and "a" in c["pref"]: c["pref"] = {"s": 0.5} if est != "gw" else None
            if c["wt"] is not None and "a" in c["wt"]: c["wt"] = {"s": 1.0}
            cases.append(c)
    N = 350 if tier == "quick" else 4000
    for _ in range(N):
        cases.append(_one(rng, tier))
    return cases

# ------------------------------------------------------------------ implementation driver
def _hx(a):
    a = numpy.asarray(a, dtype=float)
    if a.ndim == 0: return float(a).hex()
    if a.ndim == 1: return [float(x).hex() for x in a]
    return [[float(x).hex() for x in r] for r in a]

def _arg(a):
    if a is None: return None
    if "s" in a: return a["s"]
    return numpy.array(a["a"], dtype="float64")

def _classes(est):
    if est == "mol":
        from pybrops.popgen.cmat.DenseMolecularCoancestryMatrix import DenseMolecularCoancestryMatrix as C
        from pybrops.popgen.cmat.fcty.DenseMolecularCoancestryMatrixFactory import DenseMolecularCoancestryMatrixFactory as F
    elif est == "vr":
        from pybrops.popgen.cmat.DenseVanRadenCoancestryMatrix import DenseVanRadenCoancestryMatrix as C
        from pybrops.popgen.cmat.fcty.DenseVanRadenCoancestryMatrixFactory import DenseVanRadenCoancestryMatrixFactory as F
    elif est == "yang":
        from pybrops.popgen.cmat.DenseYangCoancestryMatrix import DenseYangCoancestryMatrix as C
        from pybrops.popgen.cmat.fcty.DenseYangCoancestryMatrixFactory import DenseYangCoancestryMatrixFactory as F
    else:
        from pybrops.popgen.cmat.DenseGeneralizedWeightedCoancestryMatrix import DenseGeneralizedWeightedCoancestryMatrix as C
        from pybrops.popgen.cmat.fcty.DenseGeneralizedWeightedCoancestryMatrixFactory import DenseGeneralizedWeightedCoancestryMatrixFactory as F
    return C, F

def _gmat(case, sel=None):
    from pybrops.popgen.gmat.DenseGenotypeMatrix import DenseGenotypeMatrix
    from pybrops.popgen.gmat.DensePhasedGenotypeMatrix import DensePhasedGenotypeMatrix
    mat = numpy.array(case["mat"], dtype="int8")
    phased = case["kind"] == "phased"
    if phased and mat.ndim != 3: mat = mat.reshape((case["ploidy"], len(case["mat"][0]), -1))
    if not phased and mat.ndim != 2: mat = mat.reshape((len(case["mat"]), -1))
    taxa = None if case["taxa"] is None else numpy.array(case["taxa"], dtype=object)
    grp = None if case["grp"] is None else numpy.array(case["grp"], dtype="int64")
    if sel is not None:
        ix = numpy.array(sel, dtype=int)
        mat = mat[:, ix, :] if phased else mat[ix, :]
        taxa = None if taxa is None else taxa[ix]
        grp = None if grp is None else grp[ix]
    if phased: return DensePhasedGenotypeMatrix(mat, taxa=taxa, taxa_grp=grp)
    return DenseGenotypeMatrix(mat, taxa=taxa, taxa_grp=grp, ploidy=case["ploidy"])

def _route_gmat(case):
    """the genotype matrix of the case, obtained through one of the library's own routes (case["route"]); where the route goes
    through an intermediate state (another matrix on the same object) everything cacheable is computed on that state first"""
    import copy
    r = case.get("route", "ctor")
    g = _gmat(case)
    if r == "ctor": return g
    if r == "copy": return copy.copy(g)
    if r == "deepcopy": return copy.deepcopy(g)
    if r == "method_deepcopy": return g.deepcopy()
    if r == "grouped":
        g.group_taxa(); return g
    phased = case["kind"] == "phased"
    want = g.mat.copy()
    def warm(x):
        for f in (lambda: x.afreq(), lambda: x.tacount(), lambda: x.tacount(int), lambda: (x.ploidy, x.nvrnt, x.ntaxa), lambda: _build(case, x)):
            try: f()
            except Exception: pass
    if r in ("mat_setter", "inplace"):
        other = dict(case)
        if r == "mat_setter":                                      # same shape, complemented alleles
            other["mat"] = (1 - want).tolist() if phased else (case["ploidy"] - want).tolist()
        else:
            other["mat"] = numpy.zeros_like(want).tolist()
        g2 = _gmat(other); warm(g2)
        if r == "mat_setter": g2.mat = want
        else: g2.mat[...] = want
        return g2
    if r == "select_taxa":                                         # a larger population, then the library's own selection
        n = want.shape[1] if phased else want.shape[0]
        e = min(n, 2)
        order = list(range(e)) + list(range(n - 1, -1, -1))        # rows of the big matrix: e extra taxa, then the originals reversed
        big = dict(case)
        if phased:
            ext = (1 - want[:, :e, :])
            big["mat"] = numpy.concatenate([ext, want[:, ::-1, :]], axis=1).tolist()
        else:
            ext = case["ploidy"] - want[:e, :]
            big["mat"] = numpy.concatenate([ext, want[::-1, :]], axis=0).tolist()
        big["taxa"] = None if case["taxa"] is None else ["x%d" % k for k in range(e)] + case["taxa"][::-1]
        big["grp"] = None if case["grp"] is None else [7] * e + case["grp"][::-1]
        gb = _gmat(big); warm(gb)
        return gb.select_taxa(numpy.array([e + n - 1 - i for i in range(n)]))
    raise ValueError("unknown route " + r)

def _build(case, g):
    C, F = _classes(case["est"])
    kw = {}
    pa, wa = _arg(case["pref"]), _arg(case["wt"])
    if case["est"] in ("vr", "yang"): kw["p_anc"] = pa
    if case["est"] == "gw": kw["mkrwt"] = wa; kw["afreq"] = pa
    keep = {k: (v.copy() if isinstance(v, numpy.ndarray) else v) for k, v in kw.items()}
    if case["factory"]: c = F().from_gmat(g, **kw)
    else: c = C.from_gmat(g, **kw)
    same = all((numpy.array_equal(kw[k], keep[k]) if isinstance(keep[k], numpy.ndarray) else kw[k] is keep[k] or kw[k] == keep[k]) for k in kw)
    return c, C, same

def _try(f):
    try: return f()
    except Exception as e: return {"exc": type(e).__name__}

def _num(f):
    """scalar observable: hex, or {"exc"}"""
    try: return float(f()).hex()
    except Exception as e: return {"exc": type(e).__name__}

def _lab(x):
    return None if x is None else [str(v) for v in x]
def _ints(x):
    return None if x is None else [int(v) for v in x]

def _summ(c, tol):
    """every view / summary of the object, bit-exact (hex) or the exception's name"""
    s = {}
    for f in ("coancestry", "kinship"):
        s["view_" + f] = _try(lambda: _hx(c.mat_asformat(f)))
        for nm in ("max", "min", "mean"):
            for ax in (None, 0, 1):
                s["%s_%s_%s" % (nm, f, ax)] = _try(lambda: _hx(getattr(c, nm)(f, ax)))
        s["maxinb_" + f] = _num(lambda: c.max_inbreeding(f)); s["mininb_" + f] = _num(lambda: c.min_inbreeding(f))
        s["inv_" + f] = _try(lambda: _hx(c.inverse(f)))
    s["psd"] = _try(lambda: bool(c.is_positive_semidefinite(tol)))
    s["c00"] = _num(lambda: c.coancestry(0, 0)); s["k00"] = _num(lambda: c.kinship(0, 0))
    return s

_META = ("taxa_grp_name", "taxa_grp_stix", "taxa_grp_spix", "taxa_grp_len")

def _life(case, g, c, C):
    """object lifecycle, sessions, aliasing and the remaining parameter forms, observed on the implementation only"""
    import copy
    L = {}
    G = c.mat.copy(); tol = case["tol"]; n = G.shape[0]
    taxa0, grp0 = _lab(c.taxa), _ints(c.taxa_grp)
    base = _summ(c, tol)
    for nm, mk in (("copy", lambda: copy.copy(c)), ("deepcopy", lambda: copy.deepcopy(c)), ("m_copy", lambda: c.copy()), ("m_deepcopy", lambda: c.deepcopy())):
        d = mk()
        L[nm] = {"cls": type(d) is type(c), "same": bool(_summ(d, tol) == base and numpy.array_equal(d.mat, G)),
                 "labels": _lab(d.taxa) == taxa0 and _ints(d.taxa_grp) == grp0,
                 "meta": all(_ints(getattr(d, k)) == _ints(getattr(c, k)) for k in _META),
                 "fresh": not numpy.shares_memory(d.mat, c.mat) and (c.taxa is None or d.taxa is not c.taxa)}
    d = copy.deepcopy(c)
    d.mat[0, 0] += 1.0
    if d.taxa is not None: d.taxa[0] = "zz#"
    if d.taxa_grp is not None: d.taxa_grp[0] += 1000
    L["deepcopy_independent"] = bool(numpy.array_equal(c.mat, G)) and _lab(c.taxa) == taxa0 and _ints(c.taxa_grp) == grp0
    # does the relationship matrix share mutable label arrays with the genotype matrix it came from?
    sh = lambda a, b: a is not None and b is not None and (a is b or bool(numpy.shares_memory(a, b)))
    L["shares"] = [k for k in ("taxa", "taxa_grp") + _META if sh(getattr(c, k), getattr(g, k))]
    L["shares_mat"] = bool(numpy.shares_memory(c.mat, g.mat))
    # selection on the relationship side (both axes)
    sel = numpy.array(case["sel"])
    s = c.select_taxa(sel)
    L["select"] = {"G": _hx(s.mat), "taxa": _lab(s.taxa), "grp": _ints(s.taxa_grp), "cls": type(s) is type(c)}
    # sessions: one object, summaries, an in-place update of its matrix, summaries again, the setter, summaries again
    mk = lambda M: C(mat=M.copy(), taxa=None if c.taxa is None else c.taxa.copy(), taxa_grp=None if c.taxa_grp is None else c.taxa_grp.copy())
    w = copy.deepcopy(c); _summ(w, tol)
    G2 = 2.0 * G + numpy.eye(n)
    w.mat[...] = G2
    L["session_inplace"] = bool(_summ(w, tol) == _summ(mk(G2), tol))
    G3 = 0.5 * G.T + 0.25
    w.mat = G3.copy()
    L["session_setter"] = bool(_summ(w, tol) == _summ(mk(G3), tol))
    L["orig_unchanged"] = bool(numpy.array_equal(c.mat, G)) and _summ(c, tol) == base
    # remaining parameter forms
    L["axis_tuple"] = [_num(lambda: c.max("kinship", (0, 1))), _num(lambda: c.min("coancestry", (0, 1))), _num(lambda: c.mean("kinship", (0, 1)))]
    L["axis_neg"] = [_try(lambda: _hx(c.max(axis=-1))), _try(lambda: _hx(c.min(format="kinship", axis=-1))), _try(lambda: _hx(c.mean("kinship", -1)))]
    mf = c.mean("kinship", None, "float32")
    L["mean_f32"] = [float(mf).hex(), str(numpy.asarray(mf).dtype)]
    i, j = case["ij"]
    L["row_acc"] = [_try(lambda: _hx(c.coancestry(i))), _try(lambda: _hx(c.kinship(slice(None), j)))]
    L["meta"] = {k: _ints(getattr(c, k)) for k in _META}
    L["g_meta"] = {k: _ints(getattr(g, k)) for k in _META}
    L["grouped"] = [bool(c.is_grouped_taxa()), bool(g.is_grouped_taxa())]
    return L

def _audit():
    """enumerate by introspection every public class / function of pybrops.popgen.cmat and every public method (with its
    parameters) defined by the covered classes; whatever is neither covered nor listed as skipped is reported"""
    import pkgutil, importlib, inspect
    import pybrops.popgen.cmat as pk
    unknown, seen = [], []
    for mi in pkgutil.walk_packages(pk.__path__, pk.__name__ + "."):
        if mi.ispkg: continue
        m = importlib.import_module(mi.name)
        for n, o in sorted(vars(m).items()):
            if getattr(o, "__module__", None) != mi.name or n.startswith("_"): continue
            if inspect.isfunction(o):
                if not n.startswith("check_is_"): unknown.append("function %s.%s" % (mi.name, n))
                continue
            if not inspect.isclass(o): continue
            seen.append(n)
            if n in SKIPPED: continue
            if n not in COVERED_CLASSES:
                unknown.append("class %s.%s" % (mi.name, n)); continue
            for k, v in sorted(vars(o).items()):
                if k.startswith("_") and k != "__init__": continue
                if "%s.%s" % (n, k) in SKIPPED: continue
                if k not in COVERED_METHODS:
                    unknown.append("method %s.%s" % (n, k)); continue
                f = v.__func__ if isinstance(v, (classmethod, staticmethod)) else (v.fget if isinstance(v, property) else v)
                try: ps = set(inspect.signature(f).parameters)
                except (TypeError, ValueError): ps = set()
                extra = ps - COVERED_METHODS[k]
                if extra: unknown.append("parameter(s) %s of %s.%s" % (sorted(extra), n, k))
    missing = [n for n in COVERED_CLASSES if n not in seen]
    return {"unknown": unknown, "missing": missing, "classes": len(seen)}

def run_impl(case):
    import warnings
    warnings.simplefilter("ignore")
    numpy.seterr(all="ignore")
    if case.get("audit"):
        return {"audit": _audit()}
    out = {}
    g = _route_gmat(case)
    before = g.mat.copy()
    try:
        c, C, same = _build(case, g)
    except (ValueError, TypeError, RuntimeError, ZeroDivisionError, IndexError) as e:
        out["raised"] = type(e).__name__; out["msg"] = str(e)[:200]
        c = None
    if c is not None:
        G = c.mat
        out["cls_ok"] = type(c) is C
        out["args_unchanged"] = bool(same)
        out["G"] = _hx(G)
        out["dtype"] = str(G.dtype)
        out["taxa"] = None if c.taxa is None else [str(x) for x in c.taxa]
        out["grp"] = None if c.taxa_grp is None else [int(x) for x in c.taxa_grp]
        out["ntaxa"] = int(c.ntaxa)
        finite = bool(numpy.all(numpy.isfinite(G)))
        out["finite"] = finite
        if finite:
            i, j = case["ij"]
            G0 = G.copy()
            co = c.mat_asformat("coancestry"); ki = c.mat_asformat("kinship")
            out["coan"] = _hx(co); out["kin"] = _hx(ki)
            out["kin_mixedcase"] = _hx(c.mat_asformat("KinShip"))
            out["badfmt"] = _try(lambda: _hx(c.mat_asformat("gram")))
            co[...] = -7.0                                           # the coancestry view must be a copy
            out["view_is_copy"] = bool(numpy.array_equal(c.mat, G0))
            out["c_ij"] = _num(lambda: c.coancestry(i, j)); out["k_ij"] = _num(lambda: c.kinship(i, j))
            for f in ("coancestry", "kinship"):
                t = f[0]
                out["max_" + t] = _num(lambda: c.max(f)); out["min_" + t] = _num(lambda: c.min(f)); out["mean_" + t] = _num(lambda: c.mean(f))
                for ax in (0, 1):
                    out["max_%s%d" % (t, ax)] = _hx(c.max(format=f, axis=ax))
                    out["min_%s%d" % (t, ax)] = _hx(c.min(format=f, axis=ax))
                    out["mean_%s%d" % (t, ax)] = _hx(c.mean(format=f, axis=ax))
                out["maxinb_" + t] = _num(lambda: c.max_inbreeding(f))
                out["mininb_" + t] = _num(lambda: c.min_inbreeding(f))
                inv = _try(lambda: _hx(c.inverse(f)))
                out["inv_" + t] = inv
            out["max_default"] = _num(lambda: c.max()); out["maxinb_default"] = _num(lambda: c.max_inbreeding())
            out["mininb_default"] = _num(lambda: c.min_inbreeding())
            out["psd"] = _try(lambda: bool(c.is_positive_semidefinite()))
            out["psd_neg"] = _try(lambda: bool(c.is_positive_semidefinite(-1.0)))
            out["psd_tol"] = _try(lambda: bool(c.is_positive_semidefinite(case["tol"])))
            out["mat_unchanged"] = bool(numpy.array_equal(c.mat, G0))
            try: out["life"] = _life(case, g, c, C)
            except Exception as e: out["life"] = {"exc": type(e).__name__, "msg": str(e)[:200]}
    out["gmat_unchanged"] = bool(numpy.array_equal(g.mat, before))
    # the same estimator on the selected / permuted taxa (rows picked by the harness, or by the library's own select_taxa)
    if case.get("subroute") == "select": gs = g.select_taxa(numpy.array(case["sel"], dtype=int))
    else: gs = _gmat(case, case["sel"])
    try:
        cs, _, _ = _build(case, gs)
        out["sub"] = {"G": _hx(cs.mat), "taxa": None if cs.taxa is None else [str(x) for x in cs.taxa],
                      "grp": None if cs.taxa_grp is None else [int(x) for x in cs.taxa_grp],
                      "finite": bool(numpy.all(numpy.isfinite(cs.mat)))}
    except (ValueError, TypeError, RuntimeError, ZeroDivisionError, IndexError) as e:
        out["sub"] = {"raised": type(e).__name__}
    return out

# ------------------------------------------------------------------ shared helpers (functions of the INPUT only)
def _fh(h): return float.fromhex(h)
def _fr(h): return Fraction(float.fromhex(h))

def _dos(case, sel=None):
    mat = case["mat"]
    if case["kind"] == "phased":
        pl = len(mat); n = len(mat[0]); m = len(mat[0][0]) if n else 0
        d = [[sum(mat[ph][i][j] for ph in range(pl)) for j in range(m)] for i in range(n)]
    else:
        d = [list(r) for r in mat]
    if sel is not None: d = [d[i] for i in sel]
    return d

def _dims(case):
    mat = case["mat"]
    if case["kind"] == "phased": return len(mat[0]), (len(mat[0][0]) if mat[0] else 0)
    return len(mat), (len(mat[0]) if mat else 0)

def _dy(x, bits, bound):
    f = Fraction(x)
    return (2 ** bits) % f.denominator == 0 and abs(f) <= bound

def _exact_regime(case, sel=None):
    """True when every float operation of the implementation is exact on this input (regime E)"""
    est = case["est"]; n, m = _dims(case)
    if sel is not None: n = len(sel)
    pl = case["ploidy"]
    if est == "mol": return _pow2(m)
    if est == "yang" or m == 0 or m > 32: return False
    pr = case["pref"]
    if pr is None:
        N = pl * n
        if not (_pow2(N) and N <= 64): return False
        d = _dos(case, sel)
        p = [Fraction(sum(d[i][j] for i in range(n)), N) for j in range(m)]
    elif "s" in pr:
        if not _dy(pr["s"], 6, 1): return False
        p = [Fraction(pr["s"])] * m
    else:
        if len(pr["a"]) != m or not all(_dy(x, 6, 1) for x in pr["a"]): return False
        p = [Fraction(x) for x in pr["a"]]
    if est == "gw":
        w = case["wt"]
        if w is None: return True
        if "s" in w: return _dy(w["s"], 4, 16)
        return all(_dy(x, 4, 16) for x in w["a"])
    D = pl * sum(x * (1 - x) for x in p)
    return D > 0 and (_pow2(D.numerator) and D.denominator == 1 or D.numerator == 1 and _pow2(D.denominator))

def _mean_slack(flat):
    """a mean of n^2 entries carries a summation error of up to ~n^2 ulp(max|G|) even when the exact mean cancels to 0 (estimated
    frequencies: 1'G1 = 0): for matrices with entries beyond 2^11 (marker weights scaled up) the absolute part of the 2^-30 (1+|y|)
    tolerance no longer covers it, and 2^-40 max|G| is added; ordinary matrices are compared exactly as before (slack 0)"""
    mx = max([abs(x) for x in flat] or [Fraction(0)])
    return Fraction(0) if mx <= 2 ** 11 else mx / 2 ** 40

def _scale_tol(case, sel=None):
    """2^-30 times an a-priori bound S of the entries that follows from the INPUT alone (|Z| <= ploidy):
    weighted: ploidy^2 sum|w|;  VanRaden: m ploidy / sum p(1-p);  Yang: (1/m) sum ploidy / (p(1-p)).  Every rounding error of the
    float evaluation is below a few hundred ulps of S, while a result that is off by a factor, or that treats tiny weights /
    frequencies as zero, is not: unlike 2^-30 (1 + |y|) this tolerance shrinks with the scale of the data.  None = not applicable."""
    est = case["est"]; pl = case["ploidy"]
    if est == "mol": return None
    kind, _ = _formula(case, sel)
    if kind != "ok": return None
    n, m = _dims(case)
    d = _dos(case, sel); n = len(d)
    pr = case["pref"]
    if pr is None: p = [Fraction(sum(d[i][k] for i in range(n)), pl * n) for k in range(m)]
    elif "s" in pr: p = [Fraction(pr["s"])] * m
    else: p = [Fraction(x) for x in pr["a"]]
    if est == "gw":
        w = case["wt"]
        w = [Fraction(1)] * m if w is None else ([Fraction(w["s"])] * m if "s" in w else [Fraction(x) for x in w["a"]])
        S = pl * pl * sum(abs(x) for x in w)
    elif est == "vr":
        S = Fraction(m * pl) / sum(x * (1 - x) for x in p)
    else:
        S = sum(Fraction(pl) / (x * (1 - x)) for x in p) / m
    return S / 2 ** 30

# ------------------------------------------------------------------ Coq emitter
_ERR = {"ValueError": "EValue", "TypeError": "EType", "RuntimeError": "EOther", "ZeroDivisionError": "EOther", "IndexError": "EIndex"}
def _q(h): return E.q(_fr(h))
def _oarg(a):
    if a is None: return "ANone"
    if "s" in a: return "(AScalar %s)" % E.q(Fraction(a["s"]))
    return "(AArr %s)" % E.lst(a["a"], lambda x: E.q(Fraction(x)))

def _model(case, sel=None):
    n, m = _dims(case)
    pl = E.z(case["ploidy"])
    if case["kind"] == "phased":
        X = "(tacount_ph %d %d %s)" % (n, m, E.lst3(case["mat"], E.z))
    else:
        X = E.lst2(case["mat"], E.z)
    if sel is not None:
        X = "(select [] %s %s)" % (E.lst(sel, E.nat), X)
    est = case["est"]
    if est == "mol": return "(mol_from_gmat %s %d %s)" % (pl, m, X)
    if est == "vr": return "(vr_from_gmat %s %d %s %s)" % (pl, m, X, _oarg(case["pref"]))
    if est == "yang": return "(yang_from_gmat %s %d %s %s)" % (pl, m, X, _oarg(case["pref"]))
    return "(gw_from_gmat %s %d %s %s %s)" % (pl, m, X, _oarg(case["wt"]), _oarg(case["pref"]))

def _fin(hs):
    return all(math.isfinite(_fh(h)) for r in hs for h in (r if isinstance(r, list) else [r]))

def _optmat(x):
    if isinstance(x, dict) or not _fin(x): return "None"
    return "(Some %s)" % E.lst2(x, _q)
def _optq(x):
    if isinstance(x, dict) or not math.isfinite(_fh(x)): return "None"
    return "(Some %s)" % _q(x)
def _optb(x):
    return "None" if isinstance(x, dict) else "(Some %s)" % E.b(x)

def _labels(case, sel=None):
    t, g = case["taxa"], case["grp"]
    if sel is not None:
        t = None if t is None else [t[i] for i in sel]
        g = None if g is None else [g[i] for i in sel]
    return t, g

def _emit_sub(case, out):
    s = out["sub"]
    mdl = _model(case, case["sel"])
    if "raised" in s: return "err_agree %s %s" % (mdl, _ERR.get(s["raised"], "EOther"))
    if not s["finite"]:
        return "(is_nonfinite %s && %s)" % (mdl, E.b(not any(math.isfinite(_fh(h)) for r in s["G"] for h in r)))
    ex = E.b(_exact_regime(case, case["sel"]))
    t, g = _labels(case, case["sel"])
    tl = _scale_tol(case, case["sel"])
    within = "" if tl is None else " && mat_within %s Si Gs" % E.q(tl)
    lab = "sopt_eqb %s %s && zopt_eqb %s %s" % (E.opt(s["taxa"], lambda l: E.lst(l, E.s)), E.opt(t, lambda l: E.lst(l, E.s)),
                                               E.opt(s["grp"], lambda l: E.lst(l, E.z)), E.opt(g, lambda l: E.lst(l, E.z)))
    return "(match %s with ROk Gs => let Si := %s in mat_agree %s Si Gs%s && %s | _ => false end)" % (mdl, E.lst2(s["G"], _q), ex, within, lab)

def emit_case(case, out):
    if case.get("audit"): return None
    if "exc" in out: return "false"
    mdl = _model(case)
    sub = _emit_sub(case, out)
    if "raised" in out:
        return "(err_agree %s %s && %s)" % (mdl, _ERR.get(out["raised"], "EOther"), sub)
    if not out["finite"]:
        allnf = not any(math.isfinite(_fh(h)) for r in out["G"] for h in r)
        return "(is_nonfinite %s && %s && %s)" % (mdl, E.b(allnf), sub)
    ex = E.b(_exact_regime(case))
    i, j = case["ij"]
    L1, L2, Q = E.lst, E.lst2, _q
    # exact elimination inside Coq (inverse, LDL') is cubic in ntaxa with growing rationals: above BIG_N taxa the inverse /
    # min_inbreeding / is_positive_semidefinite observables are checked by the predicate only (exact fractions in Python)
    big = _dims(case)[0] > BIG_N
    t, g = _labels(case)
    P = []
    P.append("mat_agree %s Gi G" % ex)
    slack = E.q(_mean_slack([_fr(h) for r in out["G"] for h in r]))
    tl = _scale_tol(case)
    if tl is not None: P.append("mat_within %s Gi G" % E.q(tl))
    P.append("sopt_eqb %s (cm_taxa cm) && zopt_eqb %s (cm_grp cm)" % (E.opt(out["taxa"], lambda l: L1(l, E.s)), E.opt(out["grp"], lambda l: L1(l, E.z))))
    P.append("mat_agree %s %s (mat_asformat Coancestry G)" % (ex, L2(out["coan"], Q)))
    P.append("mat_agree %s %s (mat_asformat Kinship G)" % (ex, L2(out["kin"], Q)))
    P.append("mat_agree %s %s (mat_asformat Kinship G)" % (ex, L2(out["kin_mixedcase"], Q)))
    P.append("q_agree %s %s (coancestry G %d %d) && q_agree %s %s (kinship G %d %d)" % (ex, Q(out["c_ij"]), i, j, ex, Q(out["k_ij"]), i, j))
    for f, t_ in (("Coancestry", "c"), ("Kinship", "k")):
        P.append("q_agree %s %s (max_all %s G) && q_agree %s %s (min_all %s G) && mean_agree %s %s (mean_all %s G)"
                 % (ex, Q(out["max_" + t_]), f, ex, Q(out["min_" + t_]), f, slack, Q(out["mean_" + t_]), f))
        for ax in (0, 1):
            P.append("vec_agree %s %s (red_axis maxl %s %d G) && vec_agree %s %s (red_axis minl %s %d G) && meanl_agree %s %s (red_axis meanl %s %d G)"
                     % (ex, L1(out["max_%s%d" % (t_, ax)], Q), f, ax, ex, L1(out["min_%s%d" % (t_, ax)], Q), f, ax, slack, L1(out["mean_%s%d" % (t_, ax)], Q), f, ax))
        P.append("q_agree %s %s (max_inbreeding %s G)" % (ex, Q(out["maxinb_" + t_]), f))
        P.append("inv_agree %s %s G Hc" % (_optmat(out["inv_" + t_]), f))
        P.append("mininb_agree %s %s G Hc" % (_optq(out["mininb_" + t_]), f))
    P.append("q_agree %s %s (max_all Coancestry G) && q_agree %s %s (max_inbreeding Coancestry G) && mininb_agree %s Coancestry G Hc"
             % (ex, Q(out["max_default"]), ex, Q(out["maxinb_default"]), _optq(out["mininb_default"])))
    if not big:
        P.append("psd_agree %s (psd_model %s G) && psd_agree %s (psd_model (-1) G) && psd_agree %s (psd_model %s G)"
                 % (_optb(out["psd"]), E.q(Fraction(2e-14)), _optb(out["psd_neg"]), _optb(out["psd_tol"]), E.q(Fraction(case["tol"]))))
    P.append(sub)
    lt, lg = E.opt(t, lambda l: L1(l, E.s)), E.opt(g, lambda l: L1(l, E.z))
    hc = "@None (list (list Q))" if big else "inv_checked G"
    return ("(match with_labels %s %s %s with ROk cm => let G := cm_mat cm in let Hc := %s in let Gi := %s in\n     " % (lt, lg, mdl, hc, L2(out["G"], Q))
            + "\n  && ".join(P) + "\n   | _ => false end)")

# ------------------------------------------------------------------ independent predicate
def _freq_valid(a, m):
    """argument admissible per the quantifier: None, or values in [0,1] with the right length"""
    if a is None: return True
    if "s" in a: return 0 <= a["s"] <= 1
    return len(a["a"]) == m and all(0 <= x <= 1 for x in a["a"])
def _wt_valid(a, m):
    """non-negative weights of the right length (the property's quantifier)"""
    if a is None: return True
    if "s" in a: return a["s"] >= 0
    return len(a["a"]) == m and all(x >= 0 for x in a["a"])
def _wt_accepted(a, m):
    """what the code accepts: ndarray weights of any sign; the formula (Z*w)Z' and all views/summaries still apply"""
    if a is None or "s" in a: return _wt_valid(a, m)
    return len(a["a"]) == m

def _alleles(case, sel=None):
    """per taxon, per locus: the list of allele states (phased data as is; unphased: x ones and ploidy-x zeros)"""
    mat = case["mat"]; pl = case["ploidy"]
    n, m = _dims(case)
    if case["kind"] == "phased":
        A = [[[mat[ph][i][j] for ph in range(len(mat))] for j in range(m)] for i in range(n)]
    else:
        A = [[[1] * mat[i][j] + [0] * (pl - mat[i][j]) for j in range(m)] for i in range(n)]
    if sel is not None: A = [A[i] for i in sel]
    return A

def _formula(case, sel=None):
    """the published definition, exact: returns ("ok", G) | ("undefined", why) | ("invalid", why)"""
    est = case["est"]; pl = case["ploidy"]
    n, m = _dims(case)
    d = _dos(case, sel); n = len(d)
    if est == "mol":
        if pl not in (1, 2): return ("invalid", "ploidy not supported")
        if m == 0: return ("undefined", "no markers")
        A = _alleles(case, sel)
        G = [[2 * sum(Fraction(sum(1 for a in A[i][k] for b in A[j][k] if a == b), pl * pl) for k in range(m)) / m
              for j in range(n)] for i in range(n)]
        return ("ok", G)
    if not _freq_valid(case["pref"], m): return ("invalid", "reference frequency")
    pr = case["pref"]
    if pr is None: p = [Fraction(sum(d[i][k] for i in range(n)), pl * n) for k in range(m)]
    elif "s" in pr: p = [Fraction(pr["s"])] * m
    else: p = [Fraction(x) for x in pr["a"]]
    Zm = [[d[i][k] - pl * p[k] for k in range(m)] for i in range(n)]
    if est == "vr":
        D = pl * sum(x * (1 - x) for x in p)
        if D == 0: return ("undefined", "no polymorphic reference frequency")
        return ("ok", [[sum(Zm[i][k] * Zm[j][k] for k in range(m)) / D for j in range(n)] for i in range(n)])
    if est == "yang":
        if m == 0 or any(x * (1 - x) == 0 for x in p): return ("undefined", "reference frequency 0 or 1")
        return ("ok", [[sum(Zm[i][k] * Zm[j][k] / (pl * p[k] * (1 - p[k])) for k in range(m)) / m for j in range(n)] for i in range(n)])
    if not _wt_accepted(case["wt"], m): return ("invalid", "marker weight")
    w = case["wt"]
    if w is None: w = [Fraction(1)] * m
    elif "s" in w: w = [Fraction(w["s"])] * m
    else: w = [Fraction(x) for x in w["a"]]
    return ("ok", [[sum(w[k] * Zm[i][k] * Zm[j][k] for k in range(m)) for j in range(n)] for i in range(n)])

def _inv_exact(G):
    """Gauss-Jordan with row pivoting over Fractions; None if singular"""
    n = len(G)
    A = [list(G[i]) + [Fraction(int(i == j)) for j in range(n)] for i in range(n)]
    for k in range(n):
        piv = next((r for r in range(k, n) if A[r][k] != 0), None)
        if piv is None: return None
        A[k], A[piv] = A[piv], A[k]
        pv = A[k][k]; A[k] = [v / pv for v in A[k]]
        for r in range(n):
            if r != k and A[r][k] != 0:
                f = A[r][k]; A[r] = [a - f * b for a, b in zip(A[r], A[k])]
    return [r[n:] for r in A]

def _pd_margin(G, delta):
    """exact LDL' of G - delta I: True iff all pivots are positive (lambda_min > delta)"""
    n = len(G)
    A = [[G[i][j] - (delta if i == j else 0) for j in range(n)] for i in range(n)]
    for k in range(n):
        if A[k][k] <= 0: return False
        for r in range(k + 1, n):
            f = A[r][k] / A[k][k]
            for c in range(k + 1, n): A[r][c] -= f * A[k][c]
    return True

def _close(x, y, rel=Fraction(1, 10 ** 9)):
    return abs(Fraction(x) - Fraction(y)) <= rel * (1 + abs(Fraction(y)))

def pred(case, out):
    """the property, stated directly on the implementation's outputs (independent of the Coq model)"""
    if "exc" in out: return ["driver/implementation raised %s: %s" % (out["exc"], out["msg"])]
    if case.get("audit"):
        a = out["audit"]
        return (["entry point neither covered nor listed as skipped: " + u for u in a["unknown"]]
                + ["covered class no longer found: " + u for u in a["missing"]])[:8]
    bad = []
    n, m = _dims(case)
    kind, Gx = _formula(case)
    if not out["gmat_unchanged"]: bad.append("genotype matrix mutated by from_gmat")
    if kind == "invalid":
        return bad                                   # outside the quantifier: behaviour compared by the correspondence only
    if "raised" in out:
        if kind == "ok": bad.append("from_gmat raised %s on admissible input: %s" % (out["raised"], out.get("msg")))
        return bad
    if kind == "undefined":
        return bad
    ex = _exact_regime(case)
    if not out["finite"]:
        return bad + ["non-finite matrix although the formula is defined"]
    G = [[_fr(h) for h in r] for r in out["G"]]
    Gf = numpy.array([[_fh(h) for h in r] for r in out["G"]], dtype=float).reshape((n, n))
    if not out["cls_ok"]: bad.append("from_gmat returned an object of the wrong class")
    if out["dtype"] != "float64": bad.append("matrix dtype " + out["dtype"])
    if not out["args_unchanged"]: bad.append("argument array mutated")
    if len(G) != n or any(len(r) != n for r in G): bad.append("matrix is not ntaxa x ntaxa")
    if out["ntaxa"] != n: bad.append("ntaxa")
    # 1. equals the published formula
    tl = _scale_tol(case)
    for i in range(n):
        for j in range(n):
            ok = (G[i][j] == Gx[i][j]) if ex else _close(G[i][j], Gx[i][j])
            if ok and tl is not None and abs(G[i][j] - Gx[i][j]) > tl: ok = False      # relative to the scale of the input
            if not ok:
                bad.append("%s matrix differs from its formula at [%d][%d]: %r vs %s" % (case["est"], i, j, float(G[i][j]), float(Gx[i][j]))); break
        else: continue
        break
    # 2. kinship view is exactly half the coancestry view; coancestry view is the matrix
    if out["coan"] != out["G"]: bad.append("coancestry view differs from the matrix")
    if any(_fr(k) * 2 != _fr(c) for rk, rc in zip(out["kin"], out["G"]) for k, c in zip(rk, rc)): bad.append("kinship view is not half the coancestry view")
    if out["kin_mixedcase"] != out["kin"]: bad.append("format string is not case-insensitive")
    if not (isinstance(out["badfmt"], dict) and out["badfmt"]["exc"] == "ValueError"): bad.append("unknown format accepted")
    if not out["view_is_copy"]: bad.append("coancestry view aliases the matrix")
    i, j = case["ij"]
    if out["c_ij"] != out["G"][i][j]: bad.append("coancestry(i,j) accessor")
    if isinstance(out["k_ij"], dict) or _fr(out["k_ij"]) * 2 != G[i][j]: bad.append("kinship(i,j) accessor is not half the coancestry")
    # 3. symmetric, positive semidefinite up to rounding
    scale = 1 + max(abs(x) for r in G for x in r)
    tol = Fraction(1, 10 ** 9) * scale
    if any(abs(G[a][b] - G[b][a]) > (0 if case["est"] == "mol" else tol) for a in range(n) for b in range(n)): bad.append("matrix is not symmetric")
    if _wt_valid(case["wt"], m):
        ev = numpy.linalg.eigvalsh((Gf + Gf.T) / 2.0)
        if ev.min() < -1e-9 * float(scale) * n: bad.append("matrix is not positive semidefinite: lambda_min = %r" % float(ev.min()))
    # 4. labels
    if out["taxa"] != case["taxa"]: bad.append("taxa labels not carried over")
    if out["grp"] != case["grp"]: bad.append("taxa group labels not carried over")
    # 5. permutation / sub-selection of taxa
    s = out["sub"]; sel = case["sel"]
    ks, Gs = _formula(case, sel)
    if ks == "ok":
        if "raised" in s or not s["finite"]: bad.append("estimator failed on the selected taxa")
        else:
            S = [[_fr(h) for h in r] for r in s["G"]]
            exs = _exact_regime(case, sel)
            tls = _scale_tol(case, sel)
            if any(not ((S[a][b] == Gs[a][b]) if exs else _close(S[a][b], Gs[a][b])) or (tls is not None and abs(S[a][b] - Gs[a][b]) > tls)
                   for a in range(len(sel)) for b in range(len(sel))):
                bad.append("matrix of the selected taxa differs from its formula")
            if s["taxa"] != (None if case["taxa"] is None else [case["taxa"][k] for k in sel]): bad.append("labels of the selected taxa")
            if s["grp"] != (None if case["grp"] is None else [case["grp"][k] for k in sel]): bad.append("group labels of the selected taxa")
            if case["est"] == "mol" or case["pref"] is not None:          # reference frequencies not re-estimated: must commute
                for a in range(len(sel)):
                    for b in range(len(sel)):
                        x, y = S[a][b], G[sel[a]][sel[b]]
                        if not ((x == y) if case["est"] == "mol" else _close(x, y)):
                            bad.append("estimator does not commute with taxa selection at [%d][%d]" % (a, b)); break
                    else: continue
                    break
    # 6. summaries agree with direct evaluation on the matrix
    flat = [x for r in G for x in r]
    def val(k):
        v = out[k]
        return None if isinstance(v, dict) else _fr(v)
    for t, c in (("c", 1), ("k", Fraction(1, 2))):
        if val("max_" + t) != c * max(flat): bad.append("max (%s)" % t)
        if val("min_" + t) != c * min(flat): bad.append("min (%s)" % t)
        mv = val("mean_" + t)
        slk = _mean_slack(flat) / 16
        if mv is None or not (_close(mv, c * sum(flat) / (n * n), Fraction(1, 10 ** 12)) or abs(mv - c * sum(flat) / (n * n)) <= slk): bad.append("mean (%s)" % t)
        for ax in (0, 1):
            lines = [[G[a][b] for a in range(n)] for b in range(n)] if ax == 0 else G
            if [_fr(h) for h in out["max_%s%d" % (t, ax)]] != [c * max(l) for l in lines]: bad.append("max axis %d (%s)" % (ax, t))
            if [_fr(h) for h in out["min_%s%d" % (t, ax)]] != [c * min(l) for l in lines]: bad.append("min axis %d (%s)" % (ax, t))
            if any(not (_close(_fr(h), c * sum(l) / n, Fraction(1, 10 ** 12)) or abs(_fr(h) - c * sum(l) / n) <= slk) for h, l in zip(out["mean_%s%d" % (t, ax)], lines)) \
               or len(out["mean_%s%d" % (t, ax)]) != n: bad.append("mean axis %d (%s)" % (ax, t))
        if val("maxinb_" + t) != c * max(G[a][a] for a in range(n)): bad.append("max_inbreeding (%s) is not the largest diagonal entry" % t)
    if out["max_default"] != out["max_c"] or out["maxinb_default"] != out["maxinb_c"] or out["mininb_default"] != out["mininb_c"]:
        bad.append("default format is not coancestry")
    # inverse / minimum inbreeding: only where the exact inverse is well-conditioned
    H = _inv_exact(Gx)
    if H is not None:
        mh = max(abs(x) for r in H for x in r); mg = max(abs(x) for r in Gx for x in r)
        if n * mg * mh <= 1000:
            for t, c in (("c", 1), ("k", 2)):
                iv = out["inv_" + t]
                if isinstance(iv, dict) or not _fin(iv): bad.append("inverse (%s) failed on a well-conditioned matrix" % t); continue
                Hi = [[_fr(h) for h in r] for r in iv]
                # direct evaluation: (G/c') * Hi = I on the implementation's own matrix
                R = max(abs(sum(G[a][k] / c * Hi[k][b] for k in range(n)) - (1 if a == b else 0)) for a in range(n) for b in range(n))
                if R > Fraction(1, 10 ** 7): bad.append("inverse (%s): G*H differs from I by %.3g" % (t, float(R)))
            sH = sum(x for r in H for x in r)
            if sH != 0 and n * n * mh <= 1000 * abs(sH):
                for t, c in (("c", 1), ("k", Fraction(1, 2))):
                    v = val("mininb_" + t)
                    if v is None or not _close(v, c / sH, Fraction(1, 10 ** 7)): bad.append("min_inbreeding (%s) != 1/sum(inv(G))" % t)
    # is_positive_semidefinite: only with an exact margin certificate
    mg = max(abs(x) for r in Gx for x in r)
    margin = Fraction(1, 10 ** 6) * (1 + n * mg)
    for key, tl in (("psd", Fraction(2e-14)), ("psd_neg", Fraction(0)), ("psd_tol", Fraction(case["tol"]))):
        want = None
        if _pd_margin(Gx, tl + margin): want = True
        elif any(Gx[a][a] < tl - margin for a in range(n)): want = False
        if want is not None and out[key] is not want: bad.append("is_positive_semidefinite (%s) returned %r, certified %r" % (key, out[key], want))
    if not out["mat_unchanged"]: bad.append("matrix mutated by a view / summary")
    bad += _pred_life(case, out, G, n)
    seen = []
    for b in bad:
        if b not in seen: seen.append(b)
    return seen[:8]

def _pred_life(case, out, G, n):
    """lifecycle / session / aliasing clauses: results are functions of the state at the call; copies are equal and independent;
    the relationship-side selection is the selection of rows and columns; no mutable array is shared with the source"""
    L = out.get("life")
    if L is None: return []
    if "exc" in L: return ["lifecycle driver raised %s: %s" % (L["exc"], L.get("msg"))]
    bad = []
    for nm in ("copy", "deepcopy", "m_copy", "m_deepcopy"):
        d = L[nm]
        if not d["cls"]: bad.append("%s changes the class" % nm)
        if not d["same"]: bad.append("%s: matrix or summaries differ from the original" % nm)
        if not d["labels"] or not d["meta"]: bad.append("%s: labels / group metadata differ from the original" % nm)
        if "deep" in nm and not d["fresh"]: bad.append("%s shares arrays with the original" % nm)
    if not L["deepcopy_independent"]: bad.append("writing into a deep copy changed the original")
    if L["shares_mat"]: bad.append("relationship matrix shares memory with the genotype matrix")
    if L["shares"]: bad.append("from_gmat shares mutable label arrays with the genotype matrix: %s" % ",".join(L["shares"]))
    sel = case["sel"]; s = L["select"]
    if s["G"] != [[out["G"][a][b] for b in sel] for a in sel]: bad.append("select_taxa on the relationship matrix is not the selection of rows and columns")
    if s["taxa"] != (None if case["taxa"] is None else [case["taxa"][k] for k in sel]) or \
       s["grp"] != (None if case["grp"] is None else [case["grp"][k] for k in sel]) or not s["cls"]: bad.append("select_taxa on the relationship matrix: labels / class")
    if not L["session_inplace"]: bad.append("session: summaries after an in-place update of the matrix differ from those of a fresh object in the same state")
    if not L["session_setter"]: bad.append("session: summaries after assigning a new matrix differ from those of a fresh object in the same state")
    if not L["orig_unchanged"]: bad.append("copies / selections / sessions changed the original object")
    if L["axis_tuple"] != [out["max_k"], out["min_c"], out["mean_k"]]: bad.append("axis=(0,1) differs from axis=None")
    if L["axis_neg"] != [out["max_c1"], out["min_k1"], out["mean_k1"]]: bad.append("axis=-1 differs from axis=1")
    mf, dt = L["mean_f32"]
    flat = [x for r in G for x in r]
    want = sum(flat) / (2 * n * n); mx = max(abs(x) for x in flat)
    if dt != "float32" or not (abs(_fr(mf) - want) <= Fraction(1, 10 ** 4) * mx + Fraction(1, 10 ** 30)): bad.append("mean(dtype=float32)")
    i, j = case["ij"]
    if L["row_acc"][0] != out["G"][i]: bad.append("coancestry(i) is not row i")
    col = L["row_acc"][1]
    if isinstance(col, dict) or [_fr(h) * 2 for h in col] != [G[a][j] for a in range(n)]: bad.append("kinship(:, j) is not half of column j")
    if L["meta"] != L["g_meta"] or L["grouped"][0] != L["grouped"][1]: bad.append("group metadata not carried over from the genotype matrix")
    if case.get("route") == "grouped":
        grp = case["grp"]; names = sorted(set(grp))
        stix = [grp.index(v) for v in names]; ln = [grp.count(v) for v in names]
        want = {"taxa_grp_name": names, "taxa_grp_stix": stix, "taxa_grp_spix": [a + b for a, b in zip(stix, ln)], "taxa_grp_len": ln}
        if L["meta"] != want: bad.append("group metadata of a grouped source: %r" % (L["meta"],))
    return bad

def nontrivial(case, out):
    if case.get("audit"): return False
    n, m = _dims(case)
    d = _dos(case)
    poly = any(len({d[i][k] for i in range(n)}) > 1 for k in range(m))
    return n >= 2 and poly and out.get("finite", False)

def _scale_class(case):
    vals = []
    for k in ("pref", "wt"):
        a = case.get(k)
        if a is not None: vals += [a["s"]] if "s" in a else list(a["a"])
    vals = [abs(v) for v in vals if v not in (0, 1)]
    if not vals: return "none"
    lo, hi = min(min(v, abs(1 - v)) for v in vals), max(vals)
    return "tiny (< 2^-8)" if lo < 2.0 ** -8 and hi <= 64 else "huge (> 2^8)" if hi > 256 else "ordinary"

def describe(case, out):
    if case.get("audit"): return {"kind": "entry-point audit"}
    n, m = _dims(case)
    a = lambda x: "none" if x is None else ("scalar" if "s" in x else "array")
    kind, Gx = _formula(case)
    inv = "n/a"
    if kind == "ok":
        H = _inv_exact(Gx)
        if H is None: inv = "singular"
        else:
            mh = max(abs(x) for r in H for x in r); mg = max(abs(x) for r in Gx for x in r)
            inv = "well-conditioned (asserted)" if n * mg * mh <= 1000 else "ill-conditioned (not asserted)"
    return {"estimator": case["est"], "via": "factory" if case["factory"] else "class", "kind": case["kind"], "ploidy": case["ploidy"],
            "ntaxa": "1" if n == 1 else "2-4" if n <= 4 else "5-8" if n <= 8 else "9+", "nmarkers": "0" if m == 0 else "pow2" if _pow2(m) else "other",
            "ref_freq": a(case["pref"]), "weights": a(case["wt"]), "regime": "E" if _exact_regime(case) else "T",
            "outcome": "raised" if "raised" in out else ("non-finite" if not out.get("finite", True) else "matrix"),
            "route": case.get("route", "ctor"), "subroute": case.get("subroute", "index"), "arg_scale": _scale_class(case),
            "formula": kind, "inverse": inv, "labels": "none" if case["taxa"] is None else "taxa" + ("+grp" if case["grp"] is not None else ""),
            "selection": "perm" if sorted(case["sel"]) == list(range(n)) else ("repeats" if len(set(case["sel"])) < len(case["sel"]) else "subset")}

def classify(case, out, clauses):
    """no known finding is left for C13: every failing clause is a violation.  (Formerly the VanRaden / Yang from_gmat shared the
    label arrays of the genotype matrix, finding C13-vr-yang-share-label-arrays; repaired in the library, so the sharing clause of
    `_pred_lifecycle` is an ordinary violation for every estimator; its witness in known_findings.d/C13.json is re-run on every check.)"""
    return None

def shrink(case, fails):
    """drop markers (with their per-marker arguments), then taxa, while the predicate still fails"""
    import copy
    if case.get("audit"): return case
    cur = copy.deepcopy(case)
    ph = cur["kind"] == "phased"
    def dropcol(c, j):
        t = copy.deepcopy(c)
        if ph: t["mat"] = [[r[:j] + r[j + 1:] for r in phs] for phs in t["mat"]]
        else: t["mat"] = [r[:j] + r[j + 1:] for r in t["mat"]]
        for k in ("pref", "wt"):
            if t[k] is not None and "a" in t[k] and j < len(t[k]["a"]): t[k]["a"] = t[k]["a"][:j] + t[k]["a"][j + 1:]
        return t
    def droprow(c, i):
        t = copy.deepcopy(c)
        if ph: t["mat"] = [phs[:i] + phs[i + 1:] for phs in t["mat"]]
        else: t["mat"] = t["mat"][:i] + t["mat"][i + 1:]
        for k in ("taxa", "grp"):
            if t[k] is not None: t[k] = t[k][:i] + t[k][i + 1:]
        t["sel"] = [s - (s > i) for s in t["sel"] if s != i] or [0]
        t["ij"] = [max(0, x - (x > i)) if x != i else 0 for x in t["ij"]]
        return t
    j = 0
    while _dims(cur)[1] > 1 and j < _dims(cur)[1]:
        t = dropcol(cur, j)
        if fails(t): cur = t
        else: j += 1
    i = 0
    while _dims(cur)[0] > 1 and i < _dims(cur)[0]:
        t = droprow(cur, i)
        if fails(t): cur = t
        else: i += 1
    return cur


def translate(repo, gen_dir):
    """regenerate Gen/C13_Kernel.v (kernel expressions of the four from_gmat estimators, the argument checks, the views and
    summaries of DenseCoancestryMatrix, and the label / factory wiring tables) from the current source; fail closed"""
    from translate import c13_kernel
    return [c13_kernel.translate(repo, gen_dir)]
