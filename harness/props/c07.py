"""C07 — selection protocols turn criteria into valid, correct cross configurations.
Correspondence between Model/C07_Config.v (a composition of the C17 sampling model) and
  * the eight configuration classes' sample_xconfig (cfg/{Subset,Real,Integer,Binary,SubsetMate,IntegerMate,BinaryMate,RealMate}SelectionConfiguration),
    also through object lifecycles (kind life: copy / deepcopy, the xconfig_decn / ncross / nparent / xconfig_xmap / rng setters, in-place
    writes into the decision vector, a sampling after every change),
  * core/util/array.py triuix / triudix / xmapix,
  * <Protocol>.select() of all eight protocol bases through all 24 concrete protocols of the anchored families (EBV, GEBV, OCS, Random,
    OHV, UC x subset / real / integer / binary) with exact optimisers, also as sessions on ONE protocol object (cross-design setters,
    breeding values overwritten in place, a relabelled population between calls), and the protocols' nmating / nprogeny validation,
  * an audit case enumerating every class / function of the anchored modules at run time (COVERED / SKIPPED below; anything
    unclassified fails the check),
  * the decision space of every protocol over a cross map (OHV, UC x subset / integer / binary / real; unique_parents both ways): the
    problem handed to the optimiser is recorded and compared with the model's xmapix enumeration (whole map: members 0..len-1 and bounds
    0 / len-1 for the subset encodings, one bounded variable per row for the vector encodings); the sorting optimiser's choice is compared
    with the model over the criterion of EVERY row, also on relabelled populations and on the relabelling that puts the best crosses in
    the tail of the map,
  * the multi-objective choice of every protocol class over a grid of declared preferences (ndset_wt negative / positive non-unit / unit x
    the default distance transformation with default and non-default keyword arguments, a non-homogeneous squared distance, a step
    function with ties, a weighted sum): the exhaustive stub's own record of the front, the declared transformation evaluated by the
    harness, the first maximiser of ndset_wt * ndset_trans(soln_obj, **kwargs) - predicate, and mo_choice in Coq,
plus the independent predicate (the property stated on the implementation's outputs).
Kernel expressions (Gen/C07_Kernel.v) are regenerated from the source by harness/translate/c07_kernel.py on every run (translate())."""
import copy, itertools, math, random as _pyrandom
from fractions import Fraction
import numpy
import coqemit as E

ID = "C07"
PROPS = "Props/C07.v"
IMPORTS = "From Coq Require Import PrimFloat.\nFrom PV Require Import Lib.Common Model.C17_Sampling Model.C07_Config."
SHARD = 40
LEVEL_TEXT = ("Coq theorems over an executable model that composes the (proved) C17 sampling model exactly as the sample_xconfig "
              "methods do: for every decision vector, cross-design shape and every sequence of generator draws the configuration has "
              "ncross*nparent entries, contains only members of the chosen solution, uses a subset's / binary vector's members floor or "
              "ceiling of t/k times, an integer vector's member i (IntegerSelectionConfiguration) and an integer vector's candidate cross i "
              "(IntegerMateSelectionConfiguration) floor or ceiling of t*x_i/sum(x) times for EVERY count vector, start and shuffle (integer "
              "stochastic universal sampling; exactly t*x_i/S when S divides t), a real "
              "contribution vector's member floor or ceiling of t*x_i/sum(x) times (ideal pointers; binary64 pointers under the C17 cell "
              "hypothesis), and is a 2-exchange local optimum of the self-pairing count after the final within-cross shuffle; every nmating / "
              "nprogeny a selection protocol accepts at construction is accepted by the configuration select() builds; triudix / "
              "triuix enumerate exactly the strictly increasing / non-decreasing k-tuples below n in lexicographic order; the sorting "
              "optimiser returns a top-k set which minimises the summed criterion and commutes with relabelling under distinct criterion "
              "values; the multi-objective choice is the first argmax of ndset_wt * (declared transformation of the front) - the weight multiplies the OUTPUT of the "
              "transformation, so the choice depends on the weight through its sign only (C07_mo_choice_weight_sign_only) and a weight applied to the input of the "
              "transformation provably chooses another point (C07_mo_weight_inside_transformation_differs); a 0/1 vector over "
              "candidate crosses (BinaryMateSelectionConfiguration) uses the marked crosses floor or ceiling of ncross/k times, a contribution "
              "vector over candidate crosses (RealMateSelectionConfiguration) floor or ceiling of ncross*x_i/sum(x); the integer decision space UsefulnessCriterionIntegerSelection builds over the candidate "
              "crosses has, for every accepted cross design, one [0, nparent*sum(nmating)] pair per candidate cross and contains every allocation "
              "of the design's matings to the candidate crosses; the decision space every protocol over a cross map (OptimalHaploidValue* / UsefulnessCriterion* Selection, subset / integer / "
              "binary / real encodings, unique and repeatable parents) hands to the optimiser is the WHOLE map: the subset encodings admit exactly the row "
              "numbers 0..len(map)-1 in each of the ncross positions, the vector encodings have one bounded variable per row, the rows are the xmapix "
              "enumeration (comb(n,k) rows only for unique parents; a space sized by comb(ntaxa, nparent) provably misses the tail, "
              "C07_comb_sized_space_misses_tail). 170 kernel expressions "
              "(index / pointer formulas, size / replace / axis arguments, argument order, cross-map lookup, the setters' checks, the dispatch on "
              "nobj, score and argmax, the row of the solution and the attributes handed to the configuration in both branches of the eight "
              "select() methods, lower bound / leaf test / range of triudix and triuix, xmapix, the slice of the sorting optimiser, the two numbers repeated as bounds of the UC integer decision space, and per protocol over a cross map the arguments of _calc_xmap, "
              "its triudix / triuix dispatch, the argument of numpy.arange, value and count of both numpy.repeat bounds and ndecn) are regenerated "
              "from the source on every run, the configurations assembled from them are proved equal to the hand model and the property theorems "
              "are stated about the assembled programs (C07_kernel_*), so a changed expression breaks the build whatever the cases exercise. The model is "
              "evaluated inside Coq against the implementation's outputs on generated inputs with recorded scripted draws (bit-exact "
              "binary64 for the stochastic-universal-sampling pointers)")
LEVEL_NOTE = ("trusted: Coq kernel + vm_compute, PrimFloat primitives; the C17 model of tiled_choice / SUS / outcross_shuffle / axis_shuffle "
              "(own correspondence check C17); numpy argsort/argmax/repeat semantics; harness-side exact optimisers (brute-force stubs for the "
              "real/integer/binary encodings and for multi-objective fronts) stand in for the pymoo defaults, which are covered by a result "
              "monitor only; the draws are produced on demand by a Scripted subclass installed in place of the global generator (selection "
              "protocols pass rng=None, finding C08-selcfg-global-rng) and recorded; theorems are about the Gallina model, the tie to the code is "
              "differential on generated inputs")
TECHNIQUE = "Coq proof over an executable model (composition of the C17 model); in-Coq vm_compute correspondence with the implementation"
RULE = ("case = (kind in {cfg, life, xmap, select, audit}, arguments, draw script); one PRNG. cfg: class in {subset, real, integer, binary, mate, imate, bmate, rmate}, "
        "ncross 1..5 x nparent 1..4, decision vectors with sizes 1..8 incl. fewer/equal/more members than slots, duplicates, zeros, sums "
        "that do / do not divide the slot count, bool/int32/int64 storage, scalar or array nmating/nprogeny, invalid shapes and dtypes; "
        "real weights also scaled by 2^e, e in -40..20, and exact zeros next to 2^-40; 130..300 candidates / rows of the cross map with members beyond 127 and 255 "
        "and int8 / uint8 / int16 / bool storage; draw modes identity / reversal / random; a second sample_xconfig call; the sampled matrix overwritten in place "
        "(aliasing with decision vector / cross map); life: 2..4 of {copy, deepcopy, set_decn, in-place mutate_decn, set_shape, set_xmap, set_rng}, a sampling "
        "after each; xmap: n 0..7, k 0..4, both generators and xmapix; select: all 24 protocol classes, breeding values scaled by 2^e (e in -30..15), sessions of "
        "1..2 further select() calls on the same protocol (setters / in-place breeding values / relabelled population); audit: introspection of the anchored modules; "
        "families EBV (4 encodings), GEBV, OCS, Random, OHV (subset- and integer-mate), UC (all four encodings over candidate crosses; the integer one with 1..3 crosses, scalar and per-cross nmating, its decision-space bounds compared with the model), 3..8 taxa, 1..2 traits, ties and distinct criteria, zero / negative / "
        "wrong-length nmating and nprogeny (must be refused by the constructor), nobj 1..2, weights of "
        "both signs, sorting optimiser / sorting hill climber / brute-force exact stubs, default and harness transformations of the front, "
        "a relabelled second run; a grid of two-objective select() cases over all 24 protocol classes x ndset_wt in {negative (-1, -2, -1/2, -4), positive non-unit "
        "(1/2, 2, 4, 1/4), unit (1.0, None)} x transformation of the front in {library default with default keyword arguments, library default with non-default "
        "obj_wt signs / vec_wt preference vectors (also handed in explicitly), harness squared distance to a reference point (not positively homogeneous), harness "
        "three-valued step function (ties), weighted sum} (quick: nine pairs per class, thorough: the full grid twice), mostly antagonistic traits (long fronts), the "
        "exhaustive stub returns the whole frontier of its candidate list and keeps its own record of it; the choice is judged (predicate) on that record and on the "
        "DECLARED weight / transformation / keyword arguments evaluated by the harness itself (first maximiser of ndset_wt * ndset_trans(soln_obj, **kwargs); exact "
        "rational keys decide whether a deviation is more than rounding), with and without miscout, and in Coq against mo_choice over the same record; "
        "every one-objective subset-encoded run over a cross map is repeated on the population relabelled so that its best "
        "ncross crosses are crosses among the highest-index taxa (tail of the map, selfs included when parents may repeat); fixed cases drive all eight "
        "cross-map protocols with unique_parents both ways, 1..4 crosses, 3 parents (OHV), reversed / permuted relabellings; the problem handed to the "
        "optimiser is recorded at minimize() (decision space, bounds, ndecn, the problem's own cross map) and the per-row criterion is evaluated on EVERY row "
        "of that map, whatever space the protocol built; non-trivial = more candidates than slots filled by one member and a non-constant criterion / vector; "
        "distinct by SHA-256 of the case")
TRUSTED = ["C17 model of the sampling utilities (checked by the C17 correspondence)",
           "harness/translate/c07_kernel.py (ast translator of the kernel expressions; fail closed: statement sequence of every sample_xconfig, keyword arguments of the sampling calls, "
           "class of the configuration a protocol builds and the shape of the setters are pinned, anything else is refused); numpy fancy indexing xmap[out,:] selects rows; "
           "numpy.repeat(arange(n), x) repeats position i x_i times; rng.choice(n) returns a start below n",
           "numpy.argsort / argmax (first maximum) / repeat / fancy indexing semantics; numpy.arange(n) = 0..n-1, numpy.repeat(v, n) = n copies of v, "
           "numpy.stack refuses rows of different lengths; the translator pins that the problem object of a cross-map protocol is built over the same "
           "map as its decision space (OHV: from_pgmat_gpmod recomputes it from the same three arguments; UC: the map is handed on as decn_space_xmap)",
           "props.c07._recording: the optimiser's minimize() is wrapped on the instance to record the problem it is handed, then calls the original",
           "harness-side exact optimiser stubs (enumeration) are correct minimisers over their finite candidate lists",
           "props.c07._ref_vec_dist (the documented default distance transformation written out in the harness), _sqdist_trans / _step_trans / _wsum_trans (harness "
           "transformations handed to the protocols) and _exact_keys (their exact rational counterparts) compute the declared preference over a front",
           "props.c07._Lazy: shuffle(x) with permutation pm sets x[i] = x[pm[i]]; choice returns a[ix] (a scalar request choice(n) returns ix < n); uniform returns the recorded value"]
ASSUMPTIONS = ["decision vectors as the configuration setters accept them (1-d, integer / binary / floating); real vectors non-negative with positive sum on a dyadic grid",
               "multi-objective scores are finite (no NaN in ndset_wt * ndset_trans(front))",
               "cross-map indices of mate configurations are non-negative"]
CASE_TIMEOUT = 120

F = Fraction
CROSS_BASED = ("mate", "imate", "bmate", "rmate")        # configurations over candidate crosses (cross map lookup)
REAL_LIKE = ("real", "rmate")                            # floating contribution vectors
def _fh(h): return float.fromhex(h)
def _hx(x): return float(x).hex()

# ================================================================== scripted generator producing draws on demand
def _lazy(draw):
    """a rngscript.Scripted whose answers are produced on demand (mode id / rev / rand / pair from a seeded PRNG, or an explicit list
    of offsets) and recorded in .used, so that the Coq model consumes exactly the draws the implementation consumed"""
    from rngscript import Scripted
    class _Lazy(Scripted):
        def __init__(self, draw):
            Scripted.__init__(self)
            self.mode = draw.get("mode", "rand")
            self.r = _pyrandom.Random(draw.get("seed", 0))
            self.offs = list(draw.get("off", []))
            self.limit = draw.get("limit", 400)
            self.used = []
        def _note(self, rec):
            self.used.append(rec)
            if len(self.used) > self.limit:
                raise RuntimeError("more than %d generator requests" % self.limit)
        def _perm(self, n):
            p = list(range(n))
            if self.mode == "rev": p.reverse()
            elif self.mode == "rand": self.r.shuffle(p)
            return p
        def shuffle(self, x, axis=0):
            n = len(x)
            if self.mode == "pair":
                # stable sort of the entries: equal individuals become neighbours, so whole crosses start out self-paired
                # (the arrangement the outcross descent has to repair)
                a = numpy.asarray(x)
                p = sorted(range(n), key=lambda i: tuple(numpy.ravel(a[i]).tolist()))
            else: p = self._perm(n)
            self._note(["shuffle", n, p])
            if n: x[...] = numpy.array(x)[numpy.array(p, dtype=int)]
        def permutation(self, x, axis=0):
            arr = numpy.arange(x) if isinstance(x, (int, numpy.integer)) else numpy.array(x)
            p = self._perm(len(arr)); self._note(["permutation", len(arr), p])
            return arr[numpy.array(p, dtype=int)] if len(arr) else arr
        def choice(self, a, size=None, replace=True, p=None, axis=0, shuffle=True):
            arr = numpy.arange(a) if isinstance(a, (int, numpy.integer)) else numpy.asarray(a)
            n = len(arr)
            sz = int(numpy.prod(size)) if size is not None else 1
            if n == 0 and sz > 0: raise ValueError("a must be a positive integer unless no samples are taken")
            if size is None and self.mode in ("id", "rev"): ix = [0 if self.mode == "id" else n - 1]      # start of the integer sampling
            elif replace: ix = [self.r.randrange(n) for _ in range(sz)]
            elif self.mode == "id": ix = list(range(sz))
            elif self.mode == "rev": ix = list(range(n - 1, n - 1 - sz, -1))
            else: ix = self.r.sample(range(n), sz)
            self._note(["choice", n, None if size is None else (list(map(int, size)) if isinstance(size, tuple) else int(size)), bool(replace), p is not None, ix])
            if size is None: return arr[ix[0]]
            return arr[numpy.array(ix, dtype=int).reshape(size)]
        def uniform(self, low=0.0, high=1.0, size=None):
            if size is not None: raise RuntimeError("vector uniform request not scripted")
            if self.offs: v = _fh(self.offs.pop(0))
            else:
                j = {"id": 0, "rev": 63}.get(self.mode)
                if j is None: j = self.r.randrange(64)
                v = float(low) + (float(high) - float(low)) * (j / 64.0)
            self._note(["uniform", _hx(low), _hx(high), _hx(v)])
            return v
        def random(self, size=None, dtype=numpy.float64, out=None):
            return self.uniform(0.0, 1.0, size)
        def normal(self, loc=0.0, scale=1.0, size=None):
            # Random*Selection draws its random breeding values here: dyadic values, recorded
            n = int(numpy.prod(size)) if size is not None else 1
            v = [self.r.randrange(-64, 65) / 8.0 for _ in range(n)]
            self._note(["normal", n, [_hx(x) for x in v]])
            a = numpy.array(v, dtype=float)
            return loc + scale * (a.reshape(size) if size is not None else float(a[0]))
        def standard_normal(self, size=None, dtype=numpy.float64, out=None):
            return self.normal(0.0, 1.0, size)
        def multivariate_normal(self, mean, cov, size=None, check_valid="warn", tol=1e-8, *, method="svd"):
            mean = numpy.asarray(mean, dtype=float)
            shp = (() if size is None else ((size,) if isinstance(size, (int, numpy.integer)) else tuple(size))) + mean.shape
            n = int(numpy.prod(shp))
            v = [self.r.randrange(-64, 65) / 8.0 for _ in range(n)]
            self._note(["mvnormal", n, [_hx(x) for x in v]])
            return mean + numpy.array(v, dtype=float).reshape(shp)
    return _Lazy(draw)

class _patched_global:
    """install `rng` wherever pybrops keeps a module-level reference to the global generator that the selection
    configurations fall back to (they are always built with rng=None); restored on exit"""
    MODS = ["pybrops.breed.prot.sel.cfg.SampledSelectionConfigurationMixin", "pybrops.core.random.sampling",
            "pybrops.core.random.prng", "pybrops.breed.prot.sel.SelectionProtocol",
            "pybrops.breed.prot.sel.prob.RandomSelectionProblem"]
    def __init__(self, rng): self.rng = rng; self.saved = []
    def __enter__(self):
        import importlib
        for m in self.MODS:
            try: mod = importlib.import_module(m)
            except Exception: continue
            if hasattr(mod, "global_prng"):
                self.saved.append((mod, mod.global_prng)); mod.global_prng = self.rng
        return self.rng
    def __exit__(self, *a):
        for mod, old in self.saved: mod.global_prng = old

# ================================================================== generators
def _draw(rng, mode=None):
    return {"mode": mode or rng.choice(["rand", "rand", "rand", "id", "rev", "pair"]), "seed": rng.randrange(2 ** 30)}

def _shape(rng):
    r = rng.random()
    if r < 0.5: nc, npar = rng.randint(1, 4), 2
    elif r < 0.7: nc, npar = rng.randint(1, 5), rng.choice([1, 3])
    elif r < 0.85: nc, npar = rng.randint(1, 3), rng.choice([3, 4])
    else: nc, npar = rng.choice([(1, 1), (1, 2), (2, 1), (5, 2), (2, 4)])
    return nc, npar

def _mat_par(rng, nc):
    """nmating / nprogeny: scalar or array of length ncross"""
    def one():
        return rng.randint(1, 5) if rng.random() < 0.6 else [rng.randint(1, 5) for _ in range(nc)]
    return one(), one()

def _cfg_case(rng, cls=None):
    cls = cls or rng.choice(["subset", "subset", "real", "real", "integer", "integer", "integer", "binary", "mate", "mate", "imate", "bmate", "rmate"])
    nc, npar = _shape(rng)
    t = nc * npar
    ntaxa = rng.randint(max(2, npar), 8)
    nm, npg = _mat_par(rng, nc)
    case = {"kind": "cfg", "cls": cls, "ncross": nc, "nparent": npar, "nmating": nm, "nprogeny": npg, "ntaxa": ntaxa,
            "draw": _draw(rng), "ret2": rng.random() < 0.5}
    if cls == "subset":
        r = rng.random()
        if r < 0.45: k = t                                   # what the protocols produce: one member per slot
        elif r < 0.7: k = rng.randint(1, min(ntaxa, max(1, t - 1)))   # fewer members than slots: tiles + remainder
        elif r < 0.9: k = rng.randint(1, ntaxa)
        else: k = rng.randint(t + 1, t + 3)                  # more members than slots
        if k <= ntaxa and rng.random() < 0.85: decn = rng.sample(range(ntaxa), k)
        else: decn = [rng.randrange(ntaxa) for _ in range(k)]   # duplicates (what a hill climber may return)
        case["decn"] = decn; case["dtype"] = rng.choice(["int64", "int64", "int32"])
    elif cls in ("integer", "binary"):
        n = ntaxa
        if cls == "binary":
            x = [1 if rng.random() < 0.5 else 0 for _ in range(n)]
            if sum(x) == 0: x[rng.randrange(n)] = 1
            case["dtype"] = rng.choice(["int64", "bool", "int8"])
        else:
            r = rng.random()
            if r < 0.4:                                      # sum equals the number of slots
                x = [0] * n
                for _ in range(t): x[rng.randrange(n)] += 1
            elif r < 0.7:                                    # sum divides / is divided by the slots
                x = [rng.choice([0, 0, 1, 2]) for _ in range(n)]
            else: x = [rng.choice([0, 0, 1, 2, 3, 5]) for _ in range(n)]
            if sum(x) == 0: x[rng.randrange(n)] = rng.randint(1, 3)
            case["dtype"] = rng.choice(["int64", "int64", "int32"])
        case["decn"] = x
    elif cls == "real":
        w, kind = _weights(rng, ntaxa)
        case["decn"] = [_hx(v) for v in w]; case["dtype"] = "float64"; case["wkind"] = kind
    elif cls in ("bmate", "rmate"):
        npar = case["nparent"]
        uniq = rng.random() < 0.6 and npar <= ntaxa
        combos = list(itertools.combinations(range(ntaxa), npar)) if uniq else list(itertools.combinations_with_replacement(range(ntaxa), npar))
        if len(combos) > 12: combos = combos[:12]
        if rng.random() < 0.15: rng.shuffle(combos)
        case["xmap"] = [list(c) for c in combos]
        n = len(combos)
        if cls == "bmate":
            x = [1 if rng.random() < 0.45 else 0 for _ in range(n)]
            if sum(x) == 0: x[rng.randrange(n)] = 1
            case["decn"] = x; case["dtype"] = rng.choice(["int64", "bool", "int8"])
        else:
            w, kind = _weights(rng, n)
            case["decn"] = [_hx(v) for v in w]; case["dtype"] = "float64"; case["wkind"] = kind
    elif cls == "imate":
        npar = case["nparent"]
        uniq = rng.random() < 0.6 and npar <= ntaxa
        combos = list(itertools.combinations(range(ntaxa), npar)) if uniq else list(itertools.combinations_with_replacement(range(ntaxa), npar))
        if len(combos) > 12: combos = combos[:12]
        if rng.random() < 0.15: rng.shuffle(combos)
        case["xmap"] = [list(c) for c in combos]
        n = len(combos); r = rng.random()
        if r < 0.35:                                         # sum equals the number of crosses
            x = [0] * n
            for _ in range(nc): x[rng.randrange(n)] += 1
        elif r < 0.6: x = [rng.choice([0, 0, 1, 2]) for _ in range(n)]
        else: x = [rng.choice([0, 0, 1, 2, 3, 5]) for _ in range(n)]
        if sum(x) == 0: x[rng.randrange(n)] = rng.randint(1, 3)
        case["decn"] = x; case["dtype"] = rng.choice(["int64", "int64", "int32"])
    else:   # mate
        uniq = rng.random() < 0.6
        npar = case["nparent"]
        if uniq and npar > ntaxa: uniq = False
        combos = list(itertools.combinations(range(ntaxa), npar)) if uniq else list(itertools.combinations_with_replacement(range(ntaxa), npar))
        if len(combos) > 40: combos = combos[:40]
        if rng.random() < 0.15: rng.shuffle(combos)          # the configuration must not assume any order of the map
        case["xmap"] = [list(c) for c in combos]
        r = rng.random()
        k = nc if r < 0.6 else rng.randint(1, max(1, min(len(combos), nc + 2)))
        if k <= len(combos) and rng.random() < 0.85: decn = rng.sample(range(len(combos)), k)
        else: decn = [rng.randrange(len(combos)) for _ in range(k)]
        case["decn"] = decn; case["dtype"] = "int64"
    return case

def _weights(rng, n):
    """a non-negative contribution vector with positive sum on a dyadic grid, at a scale 2^e far from 1 in a third of the cases
    (e in -40..20: every operation of the binary64 model scales exactly), with exact zeros next to tiny non-zero weights"""
    kind = rng.choice(["grid", "grid", "ints", "ties", "sparse", "one", "tiny"])
    if kind == "grid": w = [rng.randint(0, 64) / 64.0 for _ in range(n)]
    elif kind == "ints": w = [float(rng.randint(0, 5)) for _ in range(n)]
    elif kind == "ties": w = [rng.choice([0.25, 0.25, 0.5, 1.0]) for _ in range(n)]
    elif kind == "sparse": w = [rng.choice([0.0, 0.0, 0.0, 0.5, 1.0, 0.125]) for _ in range(n)]
    elif kind == "tiny": w = [rng.choice([0.0, 0.0, 2.0 ** -40, 2.0 ** -40, 3 * 2.0 ** -41, 2.0 ** -30]) for _ in range(n)]
    else: w = [0.0] * n; w[rng.randrange(n)] = rng.choice([1.0, 0.375])
    if sum(w) <= 0: w[rng.randrange(n)] = 2.0 ** -40 if kind == "tiny" else 1.0
    if kind != "tiny" and rng.random() < 0.35:
        e = rng.choice([-40, -33, -20, -9, 7, 13, 20]); w = [v * 2.0 ** e for v in w]; kind += "*2^%d" % e
    return w, kind

REGIMES = ("single", "tiling", "exact", "more")

def _cfg_grid_case(rng, cls, regime, nc, npar, mode):
    """one configuration request of a systematic grid: every class x fill regime x nparent x ncross x draw mode.
    All counts are 0/1 (distinct members, 0/1 count vectors, equal weights).  `regime` relates the number k of selected
    entries to the number of slots t (individual-based classes: t = ncross*nparent; cross-based classes: t = ncross):
    single: k = 1 (self-pairings unavoidable for nparent >= 2); tiling: 2k <= t (several whole copies of the pool, an
    individual with count 1 appears several times); exact: k = t; more: k > t"""
    cross_based = cls in CROSS_BASED
    t = nc if cross_based else nc * npar
    if regime == "single": k = 1
    elif regime == "tiling": k = max(1, t // rng.choice([2, 2, 3]))
    elif regime == "exact": k = t
    else: k = t + rng.randint(1, 3)
    case = {"kind": "cfg", "cls": cls, "ncross": nc, "nparent": npar, "nmating": rng.randint(1, 3), "nprogeny": rng.randint(1, 3),
            "draw": _draw(rng, mode), "ret2": rng.random() < 0.5, "grid": regime}
    if cross_based:
        ntaxa = max(npar, 3) + rng.randint(0, 2)
        combos = list(itertools.combinations_with_replacement(range(ntaxa), npar)) if rng.random() < 0.5 else list(itertools.combinations(range(ntaxa), npar))
        while len(combos) < k: ntaxa += 1; combos = list(itertools.combinations_with_replacement(range(ntaxa), npar))
        if len(combos) > max(12, k + 2): combos = rng.sample(combos, max(12, k + 2)); combos.sort()
        case["ntaxa"] = ntaxa; case["xmap"] = [list(c) for c in combos]
        chosen = rng.sample(range(len(combos)), k)
        if cls == "mate": case["decn"] = chosen; case["dtype"] = "int64"
        elif cls == "rmate": case["decn"] = [_hx(1.0 if i in chosen else 0.0) for i in range(len(combos))]; case["dtype"] = "float64"; case["wkind"] = "grid01"
        else: case["decn"] = [1 if i in chosen else 0 for i in range(len(combos))]; case["dtype"] = rng.choice(["int64", "int32"] if cls == "imate" else ["int64", "bool", "int8"])
        return case
    ntaxa = max(k + rng.randint(0, 3), npar, 2)
    case["ntaxa"] = ntaxa
    chosen = rng.sample(range(ntaxa), k)
    if cls == "subset": case["decn"] = chosen; case["dtype"] = rng.choice(["int64", "int32"])
    elif cls == "real": case["decn"] = [_hx(1.0 if i in chosen else 0.0) for i in range(ntaxa)]; case["dtype"] = "float64"; case["wkind"] = "grid01"
    else:
        case["decn"] = [1 if i in chosen else 0 for i in range(ntaxa)]
        case["dtype"] = rng.choice(["int64", "bool", "int8"]) if cls == "binary" else rng.choice(["int64", "int32"])
    return case

def _cfg_grid(rng, tier):
    out = []
    for cls in ("subset", "integer", "binary", "real", "mate", "imate", "bmate", "rmate"):
        for regime in REGIMES:
            for npar in (1, 2, 3, 4):
                for nc in ((1, rng.choice([2, 3])) if tier == "quick" else (1, 2, 3, 4)):
                    modes = ("pair", rng.choice(["rand", "id", "rev"])) if tier == "quick" else ("pair", "rand", "id", "rev")
                    for mode in modes: out.append(_cfg_grid_case(rng, cls, regime, nc, npar, mode))
    return out

def _cfg_error_cases(rng):
    """invalid arguments: both the model and the implementation must refuse (coarse: both fail)"""
    base = lambda **kw: dict({"kind": "cfg", "cls": "subset", "ncross": 2, "nparent": 2, "nmating": 1, "nprogeny": 1, "ntaxa": 5,
                              "decn": [0, 1, 2, 3], "dtype": "int64", "draw": {"mode": "id", "seed": 1}, "ret2": False}, **kw)
    cs = [base(ncross=0), base(nparent=0), base(decn=[]), base(cls="integer", decn=[0, 0, 0, 0, 0]), base(cls="integer", decn=[2, -1, 3, 0, 0]),
          base(cls="binary", decn=[1, 2, 0, 1, 0]), base(cls="binary", decn=[0, 0, 0, 0, 0]),
          base(cls="mate", decn=[0, 9], xmap=[[0, 1], [0, 2], [1, 2]]), base(cls="mate", decn=[0, 1], xmap=[[0, 1, 2], [0, 2, 3]]),
          base(cls="imate", decn=[0, 0, 0], xmap=[[0, 1], [0, 2], [1, 2]]), base(cls="imate", decn=[1, -1, 2], xmap=[[0, 1], [0, 2], [1, 2]]),
          base(cls="imate", decn=[1, 0, 2], xmap=[[0, 1, 2], [0, 2, 3], [1, 2, 3]]), base(cls="imate", decn=[1, 0, 0, 2], xmap=[[0, 1], [0, 2], [1, 2]]),
          base(cls="imate", decn=[1, 0, 2], xmap=[[0, 1], [0, 2], [1, 2]], ncross=0),
          base(cls="integer", decn=[3, 3, 0, 0, 0], ncross=3, nparent=1), base(cls="imate", decn=[3, 3, 0], xmap=[[0, 1], [0, 2], [1, 2]], ncross=3),
          base(cls="subset", decn=[0, 1, 2, 3], dtype="float64"), base(cls="real", decn=[1, 0, 2, 1, 0], dtype="int64"),
          base(nmating=0), base(nprogeny=[1, 0]), base(nmating=[1, 1, 1]),
          base(cls="real", decn=[_hx(0.0)] * 5, dtype="float64")]
    return cs

def _cfg_large_case(rng):
    """more candidates than int8 / uint8 can count, members beyond 127 and 255, narrow storage of the decision vector"""
    cls = rng.choice(["subset", "binary", "integer", "real", "bmate", "imate"])
    nc, npar = rng.choice([(1, 2), (2, 2), (3, 1), (2, 3)])
    ntaxa = rng.choice([130, 200, 258, 300])
    case = {"kind": "cfg", "cls": cls, "ncross": nc, "nparent": npar, "nmating": 1, "nprogeny": 1, "ntaxa": ntaxa, "draw": _draw(rng), "ret2": True, "large": True}
    hi = [ntaxa - 1, ntaxa - 2, 128, 129, min(ntaxa - 1, 256), 127, 5]
    k = rng.randint(1, nc * npar + 1)
    chosen = rng.sample(sorted(set(hi)), min(k, len(set(hi))))
    if cls == "subset": case["decn"] = chosen; case["dtype"] = rng.choice(["int64", "int32", "int16"])
    elif cls == "binary": case["decn"] = [1 if i in chosen else 0 for i in range(ntaxa)]; case["dtype"] = rng.choice(["int8", "bool", "uint8"])
    elif cls == "integer":
        x = [0] * ntaxa
        for i in chosen: x[i] = rng.choice([1, 1, 2, 100])       # counts whose sum exceeds 127
        case["decn"] = x; case["dtype"] = rng.choice(["int8", "int16", "int64"])
    elif cls == "real": case["decn"] = [_hx(0.5 if i in chosen else 0.0) for i in range(ntaxa)]; case["dtype"] = "float64"; case["wkind"] = "large"
    else:
        # candidate crosses: 130..300 rows of the map
        case["ntaxa"] = 30; npar = case["nparent"] = 2
        combos = list(itertools.combinations(range(30), 2))[:ntaxa]
        case["xmap"] = [list(c) for c in combos]
        x = [0] * len(combos)
        for i in chosen: x[i] = 1 if cls == "bmate" else rng.choice([1, 2, 100])
        case["decn"] = x; case["dtype"] = rng.choice(["int8", "bool"] if cls == "bmate" else ["int8", "int16", "int64"])
    return case

def _xmap_case(rng):
    fn = rng.choice(["triuix", "triudix", "xmapix", "xmapix"])
    n = rng.randint(0, 7); k = rng.choice([0, 1, 1, 2, 2, 2, 3, 3, 4])
    if n >= 6 and k == 4: k = 3
    return {"kind": "xmap", "fn": fn, "n": n, "k": k, "unique": rng.random() < 0.5}

FAMILIES = [("ebv", "subset"), ("ebv", "subset"), ("ebv", "subset"), ("ebv", "real"), ("ebv", "integer"), ("ebv", "binary"),
            ("gebv", "subset"), ("gebv", "binary"), ("ocs", "subset"), ("ocs", "real"), ("random", "subset"), ("random", "integer"),
            ("ohv", "mate"), ("ohv", "mate"), ("uc", "mate"), ("ohv", "imate"),
            ("gebv", "real"), ("gebv", "integer"), ("ocs", "integer"), ("ocs", "binary"), ("random", "real"), ("random", "binary"),
            ("ohv", "bmate"), ("ohv", "rmate"), ("uc", "imate"), ("uc", "bmate"), ("uc", "rmate")]

def _select_case(rng, fam=None, enc=None, nobj=None, algo=None):
    if fam is None: fam, enc = rng.choice(FAMILIES)
    mate = enc in CROSS_BASED
    ntaxa = (rng.randint(3, 4) if enc != "mate" else rng.randint(3, 6)) if mate else rng.randint(3, 8)
    if enc in ("real",): ntaxa = min(ntaxa, 6)
    if enc in ("integer",): ntaxa = min(ntaxa, 7)
    nvrnt = rng.randint(4, 6)
    if nobj is None: nobj = 1 if rng.random() < 0.6 else 2
    if fam == "ocs": ntrait = 1 if nobj == 2 else rng.choice([1, 2])
    elif nobj == 2: ntrait = 2
    else: ntrait = rng.choice([1, 1, 2])
    npar = 2 if fam == "uc" else (rng.choice([2, 2, 3]) if mate else rng.choice([1, 2, 2, 2, 3, 4]))
    if mate: npar = min(npar, ntaxa)
    if mate: nc = rng.randint(1, 3)
    elif enc == "subset" and fam != "random":
        nc = rng.randint(1, max(1, ntaxa // npar))
        if rng.random() < 0.04: nc = ntaxa // npar + 1                # more slots than candidates: the problem must be refused
    else: nc = rng.randint(1, 4)
    tie = rng.random() < 0.3
    if tie: bv = [[rng.randint(0, 3) * 8 for _ in range(ntrait)] for _ in range(ntaxa)]
    else:
        cols = [rng.sample(range(-40, 41), ntaxa) for _ in range(ntrait)]
        bv = [[cols[t][i] for t in range(ntrait)] for i in range(ntaxa)]
    u = [[rng.randint(-8, 8) for _ in range(ntrait)] for _ in range(nvrnt)]
    nm, npg = _mat_par(rng, nc)
    if rng.random() < 0.06:                                   # cross-design parameters no configuration can carry: refused at construction
        bad = rng.choice([0, 0, [rng.randint(1, 3) for _ in range(nc + 1)], [rng.randint(1, 3) for _ in range(nc - 1)], [0] * nc, -1])
        if rng.random() < 0.5: nm = bad
        else: npg = bad
    case = {"kind": "select", "family": fam, "enc": enc, "ntaxa": ntaxa, "nvrnt": nvrnt, "ntrait": ntrait, "gseed": rng.randrange(1000),
            "bv": bv, "u": u, "ncross": nc, "nparent": npar, "nmating": nm, "nprogeny": npg, "nobj": nobj, "draw": _draw(rng),
            "unscale": rng.random() < 0.7, "loc": [rng.randint(-16, 16) / 8.0 for _ in range(ntrait)], "scale": [rng.choice([1.0, 2.0, 0.5]) for _ in range(ntrait)],
            "miscout": rng.random() < 0.85}
    if rng.random() < (0.4 if nobj == 2 else 0.2): case["bvexp"] = rng.choice([-30, -12, 9, 15])      # breeding values at a scale far from 1 (still dyadic)
    nlat = (1 + ntrait) if fam == "ocs" else ntrait
    if nobj == 1:
        if nlat > 1: case["obj_trans"] = "sum"
        case["obj_wt"] = rng.choice([None, 1.0, 1.0, -1.0, 2.0])
    else:
        case["obj_wt"] = rng.choice([None, [1.0, 1.0], [1.0, -1.0], [-1.0, 1.0], [0.5, 2.0]])
        case["ndset"] = rng.choice(["default", "wsum", "wsum"])
        if case["ndset"] == "wsum": case["ndset_w"] = [rng.choice([1.0, -1.0, 0.5, 2.0, 0.0]) for _ in range(2)]
        case["ndset_wt"] = rng.choice([None, 1.0, -1.0, 0.5])
        if rng.random() < 0.3: case["front_order"] = "rev"
    if algo is None:
        if enc in ("subset", "mate") and nobj == 1: algo = rng.choice(["sorting", "sorting", "sorting", "sortinghc", "stub", "hc"])   # (not imate)
        else: algo = "stub"
    case["algo"] = algo
    if mate: case["unique"] = rng.random() < (0.7 if fam == "ohv" else 0.6)          # unique_parents both ways in both families
    if rng.random() < 0.5:
        pi = list(range(ntaxa)); rng.shuffle(pi); case["relabel"] = pi
    if rng.random() < 0.35: case["session"] = _session_steps(rng, case)
    return case

MO_WT = {"neg": [-1.0, -1.0, -2.0, -0.5, -4.0], "pos": [0.5, 2.0, 4.0, 0.25], "unit": [1.0, None]}     # powers of two: the product with the transformation is exact
MO_TRANS = ("default", "dist", "sqdist", "step", "wsum")
# quick tier: nine (sign class of ndset_wt, transformation) pairs per protocol class; thorough: the full grid
MO_QUICK = [("neg", "dist"), ("neg", "sqdist"), ("neg", "default"), ("neg", "step"), ("pos", "sqdist"), ("pos", "dist"), ("unit", "dist"), ("unit", "sqdist"), ("pos", "wsum")]

def _mo_params(rng, case, wcls, trans):
    """declared preference over the front: ndset_wt of the given sign class and one of the transformations - the library's default
    distance transformation with its default / with non-default keyword arguments (objective signs, preference vector), the
    harness' squared distance to a reference point (not homogeneous), its three-valued step function (ties), a weighted sum"""
    no = case["nobj"]
    for k in ("ndset_w", "ndset_c", "ndset_obj_wt", "ndset_vec_wt", "ndset_explicit"): case.pop(k, None)
    case["ndset"] = trans; case["ndset_wt"] = rng.choice(MO_WT[wcls])
    if trans == "dist":
        while True:
            ow = [rng.choice([1.0, -1.0]) for _ in range(no)]; vw = [rng.choice([1.0, 1.0, 0.5, 2.0, 0.25, 3.0, 0.0]) for _ in range(no)]
            if any(vw) and (ow != [1.0] * no or vw != [1.0] * no): break
        case["ndset_obj_wt"] = ow; case["ndset_vec_wt"] = vw; case["ndset_explicit"] = rng.random() < 0.3
    elif trans == "sqdist": case["ndset_c"] = [rng.randint(-16, 16) / 4.0 for _ in range(no)]
    elif trans == "step": case["ndset_w"] = [rng.choice([1.0, -1.0, 0.5, 2.0]) for _ in range(no)]
    elif trans == "wsum": case["ndset_w"] = [rng.choice([1.0, -1.0, 0.5, 2.0, 0.0]) for _ in range(no)]
    return case

def _mo_case(rng, fam, enc, wcls, trans):
    """a two-objective select() of one protocol class with a declared preference of the grid; the exhaustive stub returns the whole
    frontier (of its candidate list), miscout present or absent - the stub's own record of the front is what the choice is judged on"""
    case = _select_case(rng, fam, enc, 2, "stub")
    nc = case["ncross"]
    for key in ("nmating", "nprogeny"):                        # a valid cross design: the optimisation has to run
        v = case[key]
        if (v <= 0) if isinstance(v, int) else (len(v) != nc or any(x <= 0 for x in v)): case[key] = rng.randint(1, 4)
    if enc == "subset" and fam != "random" and nc * case["nparent"] > case["ntaxa"]:
        case["nparent"] = min(case["nparent"], case["ntaxa"]); case["ncross"] = max(1, case["ntaxa"] // case["nparent"]); case["nmating"] = rng.randint(1, 4); case["nprogeny"] = rng.randint(1, 4)
        case.pop("session", None)
    if len(set(map(tuple, case["bv"]))) < len(case["bv"]) and rng.random() < 0.7:   # mostly distinct values: fronts of several points
        cols = [rng.sample(range(-40, 41), case["ntaxa"]) for _ in range(case["ntrait"])]
        case["bv"] = [[cols[t][i] for t in range(case["ntrait"])] for i in range(case["ntaxa"])]
    if case["ntrait"] == 2 and rng.random() < 0.85:
        # antagonistic traits (breeding values and marker effects): most candidates are mutually non-dominated, the front is long
        n = case["ntaxa"]; a = rng.sample(range(-40, 41), n); b = sorted(rng.sample(range(-40, 41), n), reverse=True)
        rk = sorted(range(n), key=lambda i: a[i]); col1 = [0] * n
        for pos, i in enumerate(rk): col1[i] = b[pos]
        if n >= 2: i, j = rng.sample(range(n), 2); col1[i], col1[j] = col1[j], col1[i]
        case["bv"] = [[a[i], col1[i]] for i in range(n)]
        case["u"] = [[x, -x + rng.choice([-1, 0, 0, 1])] for x in (rng.choice([-8, -6, -5, -3, -2, 2, 3, 5, 6, 8]) for _ in range(case["nvrnt"]))]
        case["obj_wt"] = rng.choice([None, [1.0, 1.0], [0.5, 2.0], [-1.0, -1.0]])       # (objective weights of one sign keep the traits antagonistic)
    case["mogrid"] = wcls
    return _mo_params(rng, case, wcls, trans)

def _mo_grid(rng, tier):
    out = []
    for fam, enc in sorted(set(FAMILIES)):
        if tier == "quick":
            for wcls, trans in MO_QUICK: out.append(_mo_case(rng, fam, enc, wcls, trans))
        else:
            for wcls in MO_WT:
                for trans in MO_TRANS:
                    for _ in range(2): out.append(_mo_case(rng, fam, enc, wcls, trans))
    return out

def _session_steps(rng, case):
    """further select() calls on the SAME protocol object: cross-design parameters changed through the setters, the breeding
    values overwritten in place in the same matrix object, a relabelled population - each result must depend on the state at
    that call only"""
    steps = []
    mate = case["enc"] in CROSS_BASED
    nc, npar = case["ncross"], case["nparent"]
    for _ in range(rng.randint(1, 2)):
        st = {}
        r = rng.random()
        if r < 0.45:
            nc2 = rng.randint(1, 3)
            if case["enc"] == "subset" and case["family"] != "random": nc2 = rng.randint(1, max(1, case["ntaxa"] // npar))
            st["set"] = {"ncross": nc2}
            nm, npg = _mat_par(rng, nc2); st["set"]["nmating"] = nm; st["set"]["nprogeny"] = npg
            if not mate and case["family"] != "uc" and rng.random() < 0.4 and case["enc"] != "subset": st["set"]["nparent"] = rng.choice([1, 2, 3])
            nc = nc2
        elif r < 0.75:
            nt = case["ntrait"]
            cols = [rng.sample(range(-40, 41), case["ntaxa"]) for _ in range(nt)]
            st["bv"] = [[cols[t][i] for t in range(nt)] for i in range(case["ntaxa"])]
        else:
            pi = list(range(case["ntaxa"])); rng.shuffle(pi); st["perm"] = pi
        steps.append(st)
    return steps

def _select_fixed():
    """hand-placed corners"""
    b = {"kind": "select", "family": "ebv", "enc": "subset", "ntaxa": 6, "nvrnt": 5, "ntrait": 1, "gseed": 3, "bv": [[8], [24], [16], [40], [0], [32]],
         "u": [[1], [2], [-3], [4], [0]], "ncross": 2, "nparent": 2, "nmating": 1, "nprogeny": 3, "nobj": 1, "algo": "sorting",
         "draw": {"mode": "rand", "seed": 4}, "relabel": [5, 4, 3, 2, 1, 0], "miscout": True}
    v = lambda **kw: dict(copy.deepcopy(b), **kw)
    uci = lambda **kw: v(**dict(dict(family="uc", enc="imate", unique=True, algo="stub", ntaxa=4, bv=[[8], [24], [16], [40]], relabel=[3, 1, 0, 2],
                                     draw={"mode": "rand", "seed": 7}), **kw))
    one = [[-8], [-24], [-16], [40], [-1], [-32]]            # one candidate with a positive value: the exact optimum selects it alone
    # two candidates, each best for one trait; all front points tie under the zero-weight transformation and the reversed front
    # starts with the solution selecting both: fewer selected individuals (counts 0/1) than slots, whole copies of the pool
    two = dict(ntrait=2, nobj=2, bv=[[40, 0], [0, 40], [1, 1], [2, 2], [3, 3], [0, 0]], u=[[1, 0], [2, 1], [-3, 2], [4, 0], [0, 1]],
               ndset="wsum", ndset_w=[0.0, 0.0], front_order="rev")
    pair = {"mode": "pair", "seed": 5}
    mo2 = dict(ntrait=2, nobj=2, bv=[[8, 1], [24, 2], [16, 5], [40, 0], [0, 9], [32, 3]], u=[[1, 0], [2, 1], [-3, 2], [4, 0], [0, 1]])
    return [v(), v(obj_wt=-1.0), v(ncross=3, nparent=2), v(ncross=1, nparent=1), v(ncross=6, nparent=1, relabel=[1, 0, 3, 2, 5, 4]),
            v(bv=[[8], [8], [8], [8], [8], [8]]), v(bv=[[8], [24], [24], [24], [0], [32]]), v(miscout=False),
            v(enc="binary", algo="stub"), v(enc="integer", algo="stub"), v(enc="real", algo="stub"),
            v(ntrait=2, nobj=2, bv=[[8, 1], [24, 2], [16, 5], [40, 0], [0, 9], [32, 3]], u=[[1, 0], [2, 1], [-3, 2], [4, 0], [0, 1]], algo="stub"),
            v(ntrait=2, nobj=2, bv=[[8, 1], [24, 2], [16, 5], [40, 0], [0, 9], [32, 3]], u=[[1, 0], [2, 1], [-3, 2], [4, 0], [0, 1]], algo="stub",
              ndset="wsum", ndset_w=[1.0, 0.5], ndset_wt=-1.0),
            v(ntrait=2, nobj=2, bv=[[8, 1], [24, 2], [16, 5], [40, 0], [0, 9], [32, 3]], u=[[1, 0], [2, 1], [-3, 2], [4, 0], [0, 1]], algo="stub",
              ndset="wsum", ndset_w=[0.0, 0.0], front_order="rev"),
            # criteria and front scores at a scale of 2^-30 (a rounded / tolerance-based comparison would see ties only)
            v(bvexp=-30), v(bvexp=-30, enc="binary", algo="stub"), v(bvexp=15, ncross=3),
            v(enc="subset", algo="stub", bvexp=-30, ndset="wsum", ndset_w=[1.0, 0.5], **mo2), v(enc="real", algo="stub", bvexp=-30, ndset="wsum", ndset_w=[1.0, 0.5], **mo2),
            v(enc="integer", algo="stub", bvexp=-30, ndset="wsum", ndset_w=[0.5, 1.0], ndset_wt=-1.0, **mo2), v(enc="binary", algo="stub", bvexp=-30, ndset="wsum", ndset_w=[1.0, 0.5], **mo2),
            v(enc="real", algo="stub", bvexp=-30, ndset="wsum", ndset_w=[1.0, 2.0], front_order="rev", **mo2), v(enc="real", algo="stub", bvexp=-30, **mo2),
            v(nmating=0), v(nprogeny=[3, 0]), v(nmating=[1, 1, 1]), v(nprogeny=[2]), v(nprogeny=0, enc="integer", algo="stub"),
            v(nmating=[2, 0], family="ohv", enc="mate", unique=True), v(family="ohv", enc="imate", unique=True, algo="stub", ntaxa=4, bv=[[8], [24], [16], [40]]),
            # protocol-level paths into the tiling / single-individual / pairing corners of every individual-based configuration
            v(enc="binary", algo="stub", bv=one, draw=pair), v(enc="integer", algo="stub", bv=one, draw=pair), v(enc="real", algo="stub", bv=one, draw=pair),
            v(enc="binary", algo="stub", bv=one, ncross=1, nparent=4), v(enc="integer", algo="stub", bv=one, ncross=3, nparent=3),
            v(enc="binary", algo="stub", draw=pair, **two), v(enc="binary", algo="stub", draw=pair, ncross=3, **two), v(enc="integer", algo="stub", draw=pair, ncross=4, **two),
            v(enc="real", algo="stub", draw=pair, ncross=3, **two), v(enc="binary", algo="stub", ncross=1, nparent=4, draw=pair, **two),
            v(enc="binary", algo="stub", ncross=2, nparent=3, draw=pair, **two), v(enc="binary", algo="stub", ncross=2, nparent=1, **two),
            v(enc="binary", algo="stub", draw={"mode": "id", "seed": 1}, **two), v(enc="binary", algo="stub", draw={"mode": "rev", "seed": 1}, **two),
            v(family="random", ncross=3, nparent=2, draw=pair), v(family="random", ncross=2, nparent=1), v(family="random", ncross=1, nparent=4, ntaxa=8, bv=[[8 * i] for i in range(8)]),
            v(ncross=1, nparent=2, draw=pair), v(ncross=1, nparent=4, draw=pair), v(ncross=2, nparent=3, draw=pair), v(ncross=1, nparent=3),
            v(family="ohv", enc="mate", unique=False), v(family="ohv", enc="mate", unique=True, nparent=3, ncross=2), v(family="uc", enc="mate", unique=True),
            # UsefulnessCriterionIntegerSelection with one, two, three crosses, scalar and per-cross nmating (formerly C07-uc-integer-bounds-shape:
            # every design with two or more crosses failed), one and two objectives, a session changing the number of crosses
            uci(ncross=1), uci(ncross=2), uci(ncross=3, nmating=[2, 1, 3]), uci(ncross=2, nmating=[1, 4], nprogeny=[2, 1], miscout=False),
            uci(ncross=3, nmating=2, ntaxa=3, bv=[[8], [16], [24]], relabel=[2, 0, 1]),
            uci(ncross=2, nmating=[3, 1], ntrait=2, nobj=2, bv=[[8, 1], [24, 2], [16, 5], [40, 0]], u=[[1, 0], [2, 1], [-3, 2], [4, 0], [0, 1]]),
            uci(ncross=1, session=[{"set": {"ncross": 3, "nmating": [1, 2, 1], "nprogeny": 1}}, {"set": {"ncross": 2, "nmating": 5, "nprogeny": [1, 2]}}])] \
        + _xmap_space_fixed(v)

def _xmap_space_fixed(v):
    """every protocol whose decision variables index a cross map (OHV, UC x subset / integer / binary / real), unique_parents BOTH
    ways, one and several crosses, three parents (OHV), per-cross nmating / nprogeny, a reversed and a permuted relabelling; the
    subset encodings with the sorting optimiser (exact), so that - together with the tail relabelling every such case gets at run
    time - the best crosses are looked for in the head AND in the tail (crosses among the highest-index taxa, selfs among them
    when parents may repeat) of the map"""
    out = []
    bv4, bv5 = [[8], [24], [16], [40]], [[8], [-24], [16], [40], [3]]
    for fam in ("ohv", "uc"):
        for uq in (True, False):
            m = lambda **kw: v(**dict(dict(family=fam, enc="mate", unique=uq, algo="sorting", draw={"mode": "rand", "seed": 11}), **kw))
            out += [m(ncross=1), m(ncross=3, relabel=[2, 0, 5, 1, 4, 3], gseed=8), m(ncross=2, ntaxa=5, bv=bv5, relabel=[4, 3, 2, 1, 0], gseed=21, obj_wt=-1.0),
                    m(ncross=4, ntaxa=4, bv=bv4, relabel=[3, 2, 1, 0], gseed=5, nmating=[1, 2, 1, 3]), m(ncross=2, algo="sortinghc", gseed=13, u=[[-1], [2], [3], [-4], [1]])]
            if fam == "ohv": out += [m(ncross=2, nparent=3, ntaxa=4, bv=bv4, relabel=[3, 2, 1, 0], gseed=9), m(ncross=1, nparent=3, ntaxa=5, bv=bv5, relabel=[4, 3, 2, 1, 0])]
            for enc in ("imate", "bmate", "rmate"):
                e = lambda **kw: v(**dict(dict(family=fam, enc=enc, unique=uq, algo="stub", ntaxa=4 if uq else 3, bv=bv4 if uq else bv4[:3],
                                               relabel=[3, 2, 1, 0] if uq else [2, 1, 0], draw={"mode": "rand", "seed": 12}), **kw))
                out += [e(ncross=1), e(ncross=2, nmating=[2, 1], nprogeny=[1, 3], gseed=17)]
            if fam == "ohv": out.append(v(family=fam, enc="bmate", unique=uq, algo="stub", nparent=3, ntaxa=3, bv=bv4[:3], relabel=[2, 1, 0], ncross=2))
    return out

def _new_decn(rng, cls, nunit, t, k=None):
    """a decision vector of class cls over nunit units (candidates, or rows of the cross map); k: required length (subset / mate)"""
    if cls in ("subset", "mate"):
        k = k or rng.randint(1, min(nunit, t + 2))
        return rng.sample(range(nunit), k) if k <= nunit and rng.random() < 0.85 else [rng.randrange(nunit) for _ in range(k)]
    if cls in ("binary", "bmate"):
        x = [1 if rng.random() < 0.5 else 0 for _ in range(nunit)]
        if sum(x) == 0: x[rng.randrange(nunit)] = 1
        return x
    if cls in ("integer", "imate"):
        x = [rng.choice([0, 0, 1, 2, 3]) for _ in range(nunit)]
        if sum(x) == 0: x[rng.randrange(nunit)] = 2
        return x
    return [_hx(v) for v in _weights(rng, nunit)[0]]

def _life_case(rng, cls=None):
    """object lifecycle of a configuration: the object is copied, its decision vector / shape / cross map / generator are replaced
    through the setters or overwritten in place, and it is sampled again after every change: every sample must be the model's
    for the state at THAT call"""
    cls = cls or rng.choice(["subset", "integer", "binary", "real", "mate", "imate", "bmate", "rmate"])
    case = _cfg_case(rng, cls)
    case["kind"] = "life"; case["nmating"] = rng.randint(1, 3); case["nprogeny"] = rng.randint(1, 3)
    cross = cls in CROSS_BASED
    nunit = len(case["xmap"]) if cross else case["ntaxa"]
    nc, npar = case["ncross"], case["nparent"]
    klen = len(case["decn"])
    steps = []
    for _ in range(rng.randint(2, 4)):
        t = nc if cross else nc * npar
        op = rng.choice(["sample", "copy", "deepcopy", "set_decn", "set_decn", "mutate_decn", "mutate_decn", "set_shape", "set_shape", "set_rng"] + (["set_xmap"] if cross else []))
        st = {"op": op}
        if op == "set_decn": st["decn"] = _new_decn(rng, cls, nunit, t); klen = len(st["decn"])
        elif op == "mutate_decn": st["decn"] = _new_decn(rng, cls, nunit, t, k=klen)
        elif op == "set_shape":
            nc = rng.randint(1, 4); st["ncross"] = nc
            if not cross: npar = rng.choice([1, 2, 2, 3]); st["nparent"] = npar
        elif op == "set_rng": st["draw"] = _draw(rng)
        elif op == "set_xmap":
            xm = [list(r) for r in case["xmap"]]; rng.shuffle(xm); st["xmap"] = xm
        steps.append(st)
        if op != "sample": steps.append({"op": "sample"})
    case["steps"] = steps
    return case

def _life_states(case):
    """(ncross, nparent, decn, xmap) in force at the construction and at every step (tracked from the case alone)"""
    nc, npar, decn, xmap = case["ncross"], case["nparent"], list(case["decn"]), case.get("xmap")
    out = [(nc, npar, decn, xmap)]
    for st in case["steps"]:
        if st["op"] in ("set_decn", "mutate_decn"): decn = list(st["decn"])
        elif st["op"] == "set_shape": nc = st["ncross"]; npar = st.get("nparent", npar)
        elif st["op"] == "set_xmap": xmap = st["xmap"]
        out.append((nc, npar, decn, xmap))
    return out

def gen_cases(rng, tier):
    q = tier == "quick"
    cases = [{"kind": "audit"}]
    cases += _cfg_error_cases(rng)
    cases += _cfg_grid(rng, tier)
    cases += _select_fixed()
    for fam, enc in sorted(set(FAMILIES)):
        for nobj in (1, 2):
            for _ in range(2 if q else 40): cases.append(_select_case(rng, fam, enc, nobj))
    for _ in range(60 if q else 1200): cases.append(_select_case(rng))
    cases += _mo_grid(rng, tier)
    for _ in range(2 if q else 30): cases.append(_select_case(rng, "ebv", "subset", 1, "ga"))
    for cls in ("subset", "real", "integer", "binary", "mate", "imate", "bmate", "rmate"):
        for _ in range(12 if q else 200): cases.append(_cfg_case(rng, cls))
    for _ in range(90 if q else 1500): cases.append(_cfg_case(rng))
    for cls in ("subset", "real", "integer", "binary", "mate", "imate", "bmate", "rmate"):
        for _ in range(5 if q else 80): cases.append(_life_case(rng, cls))
    for _ in range(12 if q else 120): cases.append(_cfg_large_case(rng))
    seen = set()
    for _ in range(40 if q else 200):
        c = _xmap_case(rng); key = (c["fn"], c["n"], c["k"], c["unique"] if c["fn"] == "xmapix" else None)
        if key in seen: continue
        seen.add(key); cases.append(c)
    return cases

# ================================================================== implementation driver
def _pgmat(ntaxa, nvrnt=4, seed=1):
    from pybrops.popgen.gmat.DensePhasedGenotypeMatrix import DensePhasedGenotypeMatrix
    g = numpy.random.Generator(numpy.random.PCG64(int(seed)))
    mat = g.integers(0, 2, size=(2, ntaxa, nvrnt)).astype("int8")
    taxa = numpy.array(["t%02d" % i for i in range(ntaxa)], dtype=object)
    return DensePhasedGenotypeMatrix(mat, taxa=taxa, taxa_grp=numpy.arange(ntaxa, dtype="int64") % 2)

def _ival(v, nc):
    return numpy.array(v, dtype="int64") if isinstance(v, list) else int(v)

CFG_CLASS = {"subset": "SubsetSelectionConfiguration", "real": "RealSelectionConfiguration", "integer": "IntegerSelectionConfiguration",
             "binary": "BinarySelectionConfiguration", "mate": "SubsetMateSelectionConfiguration", "imate": "IntegerMateSelectionConfiguration",
             "bmate": "BinaryMateSelectionConfiguration", "rmate": "RealMateSelectionConfiguration"}

def _cfg_class(cls):
    import importlib
    name = CFG_CLASS[cls]
    return getattr(importlib.import_module("pybrops.breed.prot.sel.cfg." + name), name)

def _mk_decn(vals, dtype):
    if dtype == "float64": return numpy.array([_fh(h) if isinstance(h, str) else float(h) for h in vals], dtype=float)
    return numpy.array(vals, dtype=dtype)

def _run_cfg(case):
    C = _cfg_class(case["cls"])
    pg = _pgmat(case["ntaxa"])
    decn = _mk_decn(case["decn"], case["dtype"])
    decn0 = decn.copy()
    kw = {}
    if case["cls"] in CROSS_BASED:
        xm = numpy.array(case["xmap"], dtype="int64"); kw["xconfig_xmap"] = xm; xm0 = xm.copy()
    rng = _lazy(case["draw"])
    out = {}
    if case["cls"] in REAL_LIKE and decn.dtype.kind == "f":
        out["order"] = [int(i) for i in decn.argsort()[::-1]]
    try:
        c = C(ncross=case["ncross"], nparent=case["nparent"], nmating=_ival(case["nmating"], 0), nprogeny=_ival(case["nprogeny"], 0),
              pgmat=pg, xconfig_decn=decn, rng=rng, **kw)
        x = numpy.asarray(c.xconfig)
        out["xconfig"] = x.tolist(); out["shape"] = list(x.shape); out["dtype"] = str(x.dtype)
        out["draws"] = rng.used; rng.used = []
        out["nmating"] = [int(v) for v in c.nmating]; out["nprogeny"] = [int(v) for v in c.nprogeny]
        out["ncross"] = int(c.ncross); out["nparent"] = int(c.nparent)
        out["pgmat_same"] = c.pgmat is pg
        out["decn_same"] = (c.xconfig_decn is decn) and bool(numpy.array_equal(decn, decn0))
        out["rng_same"] = c.rng is rng
        # a second, explicit sampling
        r = c.sample_xconfig(return_xconfig=case["ret2"])
        x2 = numpy.asarray(c.xconfig)
        out["second"] = {"xconfig": x2.tolist(), "ret_none": r is None, "ret_is_xconfig": (r is c.xconfig) if r is not None else None,
                         "draws": rng.used, "fresh": x2 is not x}
        out["decn_same2"] = bool(numpy.array_equal(decn, decn0))
        if case["cls"] in CROSS_BASED: out["xmap_same"] = bool(numpy.array_equal(xm, xm0)) and (c.xconfig_xmap is xm)
        # aliasing: the sampled matrix must be the configuration's own - overwrite it in place and look at the inputs again
        shares = bool(numpy.shares_memory(x2, decn)) or (case["cls"] in CROSS_BASED and bool(numpy.shares_memory(x2, xm)))
        x2[...] = -7
        out["alias"] = {"shares": shares, "decn_intact": bool(numpy.array_equal(decn, decn0)),
                        "xmap_intact": bool(numpy.array_equal(xm, xm0)) if case["cls"] in CROSS_BASED else True,
                        "first_intact": (x is x2) or bool(numpy.array_equal(x, numpy.array(out["xconfig"])))}
    except Exception as e:
        out["raised"] = type(e).__name__; out["msg"] = str(e)[:200]; out["draws_partial"] = rng.used
    return out

def _run_life(case):
    C = _cfg_class(case["cls"])
    cls = case["cls"]; cross = cls in CROSS_BASED
    pg = _pgmat(case["ntaxa"])
    decn = _mk_decn(case["decn"], case["dtype"])
    kw = {}
    if cross: kw["xconfig_xmap"] = numpy.array(case["xmap"], dtype="int64")
    rng = _lazy(case["draw"])
    out = {"steps": []}
    def snap(c, rng, rec):
        x = numpy.asarray(c.xconfig)
        rec["xconfig"] = x.tolist(); rec["shape"] = list(x.shape); rec["dtype"] = str(x.dtype)
        rec["draws"] = rng.used; rng.used = []
        d = numpy.asarray(c.xconfig_decn)
        if d.dtype.kind == "f": rec["order"] = [int(i) for i in d.argsort()[::-1]]
        rec["decn_now"] = [_hx(v) for v in d] if d.dtype.kind == "f" else [int(v) for v in d]
        if cross: rec["xmap_now"] = numpy.asarray(c.xconfig_xmap).tolist()
        rec["ncross"] = int(c.ncross); rec["nparent"] = int(c.nparent)
    try:
        c = C(ncross=case["ncross"], nparent=case["nparent"], nmating=_ival(case["nmating"], 0), nprogeny=_ival(case["nprogeny"], 0),
              pgmat=pg, xconfig_decn=decn, rng=rng, **kw)
        rec = {"op": "init"}; snap(c, rng, rec); out["steps"].append(rec)
        orig = None
        for st in case["steps"]:
            op = st["op"]; rec = {"op": op}
            if op == "sample":
                r = c.sample_xconfig(return_xconfig=True)
                rec["ret_is_xconfig"] = r is c.xconfig
                snap(c, rng, rec)
                if orig is not None:
                    rec["orig_intact"] = bool(numpy.array_equal(numpy.asarray(orig[0].xconfig), orig[1]))
            else:
                if op == "copy":
                    orig = (c, numpy.asarray(c.xconfig).copy()); c2 = copy.copy(c)
                    rec["rng_shared"] = c2.rng is c.rng; rec["decn_shared"] = c2.xconfig_decn is c.xconfig_decn; rec["pgmat_shared"] = c2.pgmat is c.pgmat
                    c = c2
                elif op == "deepcopy":
                    orig = (c, numpy.asarray(c.xconfig).copy())
                    keep = c._rng; c._rng = None                       # the scripted generator is not copied: detached, then set again
                    try: c2 = copy.deepcopy(c)
                    finally: c._rng = keep
                    c2.rng = rng
                    rec["decn_shared"] = bool(numpy.shares_memory(c2.xconfig_decn, c.xconfig_decn)); rec["class_same"] = type(c2) is type(c)
                    rec["xconfig_equal"] = bool(numpy.array_equal(c2.xconfig, c.xconfig)) and not numpy.shares_memory(c2.xconfig, c.xconfig)
                    c = c2
                elif op == "set_decn": c.xconfig_decn = _mk_decn(st["decn"], case["dtype"])
                elif op == "mutate_decn": c.xconfig_decn[...] = _mk_decn(st["decn"], case["dtype"])
                elif op == "set_shape":
                    c.ncross = st["ncross"]
                    if "nparent" in st: c.nparent = st["nparent"]
                elif op == "set_xmap": c.xconfig_xmap = numpy.array(st["xmap"], dtype="int64")
                elif op == "set_rng":
                    old = rng; rng = _lazy(st["draw"]); c.rng = rng; rec["rng_is_new"] = c.rng is rng
                    out.setdefault("retired", []).append(old)
                rec["stale_draws"] = len(rng.used)                  # a setter / copy must not draw
            out["steps"].append(rec)
        out["retired_used"] = [len(r.used) for r in out.pop("retired", [])]
    except Exception as e:
        import traceback
        out.pop("retired", None)
        out["raised"] = type(e).__name__; out["msg"] = str(e)[:200]; out["at"] = len(out["steps"]); out["tb"] = traceback.format_exc()[-500:]
    return out

# ------------------------------------------------------------------ entry points (tools/PHASE2_BRIEF.md A.1): what is driven, what is not and why
CFG_COVERED = {name: (["ncross", "nparent", "nmating", "nprogeny", "pgmat", "xconfig_decn"] + (["xconfig_xmap"] if cls in CROSS_BASED else []) + ["rng", "kwargs"])
               for cls, name in CFG_CLASS.items()}
CFG_SKIPPED = {"SelectionConfiguration": "semi-abstract base (no constructor): its ncross / nparent / nmating / nprogeny / xconfig setters are driven through every concrete class",
               "MateSelectionConfiguration": "semi-abstract base: its xconfig_xmap setter is driven through the four mate configurations",
               "SampledSelectionConfigurationMixin": "abstract mixin: xconfig_decn / rng setters and sample_xconfig are driven through every concrete class",
               "SimpleSelectionConfiguration": "carries a cross configuration supplied by the caller; nothing is sampled and no selection protocol builds it",
               "SimpleMateSelectionConfiguration": "carries a cross configuration supplied by the caller; nothing is sampled and no selection protocol builds it",
               "check_is_SelectionConfiguration": "type guard", "check_is_MateSelectionConfiguration": "type guard"}
PROT_MODULES = ["EstimatedBreedingValueSelection", "GenomicEstimatedBreedingValueSelection", "OptimalContributionSelection",
                "UsefulnessCriterionSelection", "OptimalHaploidValueSelection", "RandomSelection"]
PROT_BASES = ["SelectionProtocol", "SubsetSelectionProtocol", "RealSelectionProtocol", "IntegerSelectionProtocol", "BinarySelectionProtocol",
              "SubsetMateSelectionProtocol", "IntegerMateSelectionProtocol", "BinaryMateSelectionProtocol", "RealMateSelectionProtocol", "MateSelectionProtocol"]
FAMILY_PREFIX = {"ebv": "EstimatedBreedingValue", "gebv": "GenomicEstimatedBreedingValue", "ocs": "OptimalContribution", "uc": "UsefulnessCriterion",
                 "ohv": "OptimalHaploidValue", "random": "Random"}
ENC_SUFFIX = {"subset": "Subset", "real": "Real", "integer": "Integer", "binary": "Binary", "mate": "Subset", "imate": "Integer", "bmate": "Binary", "rmate": "Real"}
PROT_SKIPPED = {"*SelectionMixin": "mixins holding the family's parameters (ntrait, unscale, ...): driven through the concrete classes",
                "check_is_*": "type guards"}
ARRAY_COVERED = ["triuix", "triudix", "xmapix"]
ARRAY_SKIPPED = {"get_axis": "axis normalisation helper, not used by the selection protocols", "sqarrayix": "full square index generator, not used by the cross maps",
                 "sliceaxisix": "used by axis_shuffle: property C17", "flattenix": "not used by the selection protocols"}

def _prot_covered():
    """concrete protocol class -> (family, encoding) as driven by kind select"""
    out = {}
    for fam, enc in sorted(set(FAMILIES)):
        mate = fam in ("ohv", "uc")
        if mate != (enc in CROSS_BASED): continue
        out[FAMILY_PREFIX[fam] + ENC_SUFFIX[enc] + "Selection"] = (fam, enc)
    return out

def _audit():
    import inspect, pkgutil, importlib
    import pybrops.breed.prot.sel.cfg as cfgpkg
    out = {"cfg": {}, "cfg_fn": [], "prot": {}, "prot_fn": [], "bases": {}, "array": [], "sample_params": {}, "select_params": {}}
    for m in pkgutil.iter_modules(cfgpkg.__path__):
        mod = importlib.import_module("pybrops.breed.prot.sel.cfg." + m.name)
        for n, o in vars(mod).items():
            if n.startswith("_") or getattr(o, "__module__", None) != mod.__name__: continue
            if inspect.isclass(o):
                out["cfg"][n] = list(inspect.signature(o.__init__).parameters)[1:] if "__init__" in vars(o) else None
                if "sample_xconfig" in vars(o) and not inspect.isabstract(o): out["sample_params"][n] = list(inspect.signature(o.sample_xconfig).parameters)[1:]
            elif inspect.isfunction(o): out["cfg_fn"].append(n)
    for name in PROT_MODULES:
        mod = importlib.import_module("pybrops.breed.prot.sel." + name)
        for n, o in vars(mod).items():
            if n.startswith("_") or getattr(o, "__module__", None) != mod.__name__: continue
            if inspect.isclass(o): out["prot"][n] = [b.__name__ for b in o.__mro__ if b.__name__ in PROT_BASES][:1]
            elif inspect.isfunction(o): out["prot_fn"].append(n)
    for name in PROT_BASES:
        try: mod = importlib.import_module("pybrops.breed.prot.sel." + name)
        except ImportError: continue
        cls = getattr(mod, name)
        out["bases"][name] = sorted(k for k, v in vars(cls).items() if not k.startswith("_"))
        if "select" in vars(cls): out["select_params"][name] = list(inspect.signature(cls.select).parameters)[1:]
    from pybrops.core.util import array
    out["array"] = sorted(n for n, o in vars(array).items() if inspect.isfunction(o) and o.__module__ == array.__name__)
    return out

SELECT_PARAMS = ["pgmat", "gmat", "ptdf", "bvmat", "gpmod", "t_cur", "t_max", "miscout", "kwargs"]
BASES_DRIVEN = {"SubsetSelectionProtocol", "RealSelectionProtocol", "IntegerSelectionProtocol", "BinarySelectionProtocol",
                "SubsetMateSelectionProtocol", "IntegerMateSelectionProtocol", "BinaryMateSelectionProtocol", "RealMateSelectionProtocol"}

def _pred_audit(case, out):
    bad = []
    for n, params in out["cfg"].items():
        if n in CFG_COVERED:
            if params != CFG_COVERED[n]: bad.append("constructor parameters of %s are %r, the C07 check drives %r" % (n, params, CFG_COVERED[n]))
            if out["sample_params"].get(n) != ["return_xconfig"]: bad.append("parameters of %s.sample_xconfig are %r" % (n, out["sample_params"].get(n)))
        elif n not in CFG_SKIPPED: bad.append("configuration class %s is neither driven nor classified by the C07 check" % n)
    for n in CFG_COVERED:
        if n not in out["cfg"]: bad.append("configuration class %s is missing" % n)
    for n in out["cfg_fn"]:
        if n not in CFG_SKIPPED: bad.append("function %s of the configuration package is not classified by the C07 check" % n)
    cov = _prot_covered()
    for n, base in out["prot"].items():
        if n.endswith("Mixin"): continue
        if n not in cov: bad.append("protocol class %s (%s) is neither driven nor classified by the C07 check" % (n, base))
        else:
            enc = cov[n][1]; want = {"subset": "SubsetSelectionProtocol", "real": "RealSelectionProtocol", "integer": "IntegerSelectionProtocol", "binary": "BinarySelectionProtocol",
                                     "mate": "SubsetMateSelectionProtocol", "imate": "IntegerMateSelectionProtocol", "bmate": "BinaryMateSelectionProtocol", "rmate": "RealMateSelectionProtocol"}[enc]
            if base != [want]: bad.append("protocol class %s derives from %r, the C07 check drives it as a %s" % (n, base, want))
    for n in cov:
        if n not in out["prot"]: bad.append("protocol class %s is missing" % n)
    for n in out["prot_fn"]:
        if not n.startswith("check_is_"): bad.append("function %s of a protocol module is not classified by the C07 check" % n)
    for n, params in out["select_params"].items():
        if params != SELECT_PARAMS: bad.append("parameters of %s.select are %r, the C07 check drives %r" % (n, params, SELECT_PARAMS))
    for n in BASES_DRIVEN:
        if n not in out["select_params"]: bad.append("%s no longer defines select()" % n)
    for n in out["array"]:
        if n not in ARRAY_COVERED and n not in ARRAY_SKIPPED: bad.append("function %s of pybrops.core.util.array is not classified by the C07 check" % n)
    for n in ARRAY_COVERED:
        if n not in out["array"]: bad.append("function %s is missing from pybrops.core.util.array" % n)
    return bad

def _run_xmap(case):
    from pybrops.core.util import array as A
    out = {}
    try:
        if case["fn"] == "triuix": g = A.triuix(case["n"], case["k"])
        elif case["fn"] == "triudix": g = A.triudix(case["n"], case["k"])
        else: g = A.xmapix(case["n"], case["k"], case["unique"])
        res = []
        for t in g:
            res.append([int(v) for v in t])
            if len(res) > 5000: raise RuntimeError("more than 5000 tuples")
        out["out"] = res
    except RecursionError as e:
        out["raised"] = "RecursionError"; out["msg"] = str(e)[:100]
    except Exception as e:
        out["raised"] = type(e).__name__; out["msg"] = str(e)[:200]
    return out

def run_impl(case):
    import warnings
    with numpy.errstate(all="ignore"), warnings.catch_warnings():
        warnings.simplefilter("ignore")
        if case["kind"] == "cfg": return _run_cfg(case)
        if case["kind"] == "life": return _run_life(case)
        if case["kind"] == "audit": return _audit()
        if case["kind"] == "xmap": return _run_xmap(case)
        if case["kind"] == "select": return _run_select(case)
    raise ValueError(case["kind"])


# ------------------------------------------------------------------ protocol-level select
def _population(case, perm=None):
    """(pgmat, bvmat, gpmod) of the case; `perm` relabels the candidates: new candidate i is old candidate perm[i]"""
    from pybrops.popgen.gmat.DensePhasedGenotypeMatrix import DensePhasedGenotypeMatrix
    from pybrops.popgen.bvmat.DenseBreedingValueMatrix import DenseBreedingValueMatrix
    from pybrops.model.gmod.DenseAdditiveLinearGenomicModel import DenseAdditiveLinearGenomicModel
    n, p, nt = case["ntaxa"], case["nvrnt"], case["ntrait"]
    g = numpy.random.Generator(numpy.random.PCG64(int(case["gseed"])))
    mat = g.integers(0, 2, size=(2, n, p)).astype("int8")
    bv = numpy.array(case["bv"], dtype=float) / 8.0 * 2.0 ** case.get("bvexp", 0)
    ix = numpy.arange(n) if perm is None else numpy.array(perm, dtype=int)
    mat = mat[:, ix, :]; bv = bv[ix, :]
    taxa = numpy.array(["t%02d" % i for i in ix], dtype=object)
    grp = (ix % 2).astype("int64")
    chrgrp = numpy.array([1] * (p - p // 2) + [2] * (p // 2), dtype="int64")
    xo = numpy.full(p, 0.125); xo[0] = 0.5; xo[p - p // 2] = 0.5
    pg = DensePhasedGenotypeMatrix(mat, taxa=taxa, taxa_grp=grp, vrnt_chrgrp=chrgrp, vrnt_phypos=numpy.arange(p, dtype="int64") + 1,
                                   vrnt_genpos=numpy.arange(p, dtype=float) / 8.0, vrnt_xoprob=xo)
    pg.group_vrnt()
    trait = numpy.array(["tr%d" % i for i in range(nt)], dtype=object)
    bvm = DenseBreedingValueMatrix(bv, location=numpy.array(case.get("loc", [0.0] * nt), dtype=float), scale=numpy.array(case.get("scale", [1.0] * nt), dtype=float),
                                   taxa=taxa, taxa_grp=grp, trait=trait)
    u = numpy.array(case["u"], dtype=float) / 8.0 if "u" in case else numpy.zeros((p, nt))
    gm = DenseAdditiveLinearGenomicModel(beta=numpy.zeros((1, nt)), u_misc=None, u_a=u, trait=trait)
    return pg, bvm, gm

def _nondominated(objs):
    keep = []
    for i, a in enumerate(objs):
        dom = False
        for j, b in enumerate(objs):
            if j != i and all(b <= a) and any(b < a): dom = True; break
            if j < i and all(b == a): dom = True; break          # duplicates of an objective vector: keep the first
        if not dom: keep.append(i)
    return keep

def _candidates(enc, prob, case):
    """finite candidate list of the harness' exact optimiser stubs"""
    if enc in ("subset", "mate"):
        space = [int(v) for v in prob.decn_space]; k = int(prob.ndecn)
        combos = list(itertools.combinations(space, k))
        if len(combos) > 400:
            r = _pyrandom.Random(case["draw"]["seed"]); combos = r.sample(combos, 400)
        return [numpy.array(c, dtype="int64") for c in combos]
    n = int(prob.ndecn)
    if enc in ("binary", "bmate"): vals = [0, 1]
    elif enc in ("integer", "imate"): vals = [0, 1, 2] if n <= 6 else [0, 1]
    else: vals = [0.0, 0.25, 0.5, 1.0] if n <= 5 else [0.0, 0.5, 1.0]
    out = []
    dt = float if enc in REAL_LIKE else "int64"
    if len(vals) ** n > 50000:
        # too many vectors to enumerate (one entry per candidate cross): a seeded sample of 1200 distinct non-zero vectors,
        # unit vectors first (so that a one-objective optimum over single crosses is present)
        r = _pyrandom.Random(case["draw"]["seed"]); seen = set()
        for i in range(n):
            t = tuple(vals[-1] if j == i else vals[0] for j in range(n)); seen.add(t); out.append(numpy.array(t, dtype=dt))
        while len(out) < 1200:
            t = tuple(r.choice(vals) for _ in range(n))
            if sum(t) <= 0 or t in seen: continue
            seen.add(t); out.append(numpy.array(t, dtype=dt))
        return out
    for t in itertools.product(vals, repeat=n):
        if sum(t) <= 0: continue
        out.append(numpy.array(t, dtype=float if enc in REAL_LIKE else "int64"))
    if len(out) > 1200:
        r = _pyrandom.Random(case["draw"]["seed"]); out = r.sample(out, 1200)
    return out

def _stub_algo(enc, case):
    """exact optimiser over a finite candidate list (harness code): single objective -> the first minimiser;
    several objectives -> the non-dominated candidates in list order"""
    from pybrops.opt.algo.SubsetOptimizationAlgorithm import SubsetOptimizationAlgorithm
    from pybrops.opt.algo.RealOptimizationAlgorithm import RealOptimizationAlgorithm
    from pybrops.opt.algo.IntegerOptimizationAlgorithm import IntegerOptimizationAlgorithm
    from pybrops.opt.algo.BinaryOptimizationAlgorithm import BinaryOptimizationAlgorithm
    from pybrops.opt.soln.SubsetSolution import SubsetSolution
    from pybrops.opt.soln.RealSolution import RealSolution
    from pybrops.opt.soln.IntegerSolution import IntegerSolution
    from pybrops.opt.soln.BinarySolution import BinarySolution
    base, Soln = {"subset": (SubsetOptimizationAlgorithm, SubsetSolution), "mate": (SubsetOptimizationAlgorithm, SubsetSolution),
                  "real": (RealOptimizationAlgorithm, RealSolution), "integer": (IntegerOptimizationAlgorithm, IntegerSolution),
                  "binary": (BinaryOptimizationAlgorithm, BinarySolution), "imate": (IntegerOptimizationAlgorithm, IntegerSolution),
                  "bmate": (BinaryOptimizationAlgorithm, BinarySolution), "rmate": (RealOptimizationAlgorithm, RealSolution)}[enc]
    class Stub(base):
        def __init__(self): self.ncalls = 0
        def minimize(self, prob, miscout=None, **kwargs):
            self.ncalls += 1
            # the bounds of the decision space of the problem the protocol built (one row each)
            self.bounds = [numpy.asarray(prob.decn_space_lower).tolist(), numpy.asarray(prob.decn_space_upper).tolist()]
            cands = _candidates(enc, prob, case)
            ev = [prob.evalfn(x) for x in cands]
            objs = [numpy.asarray(e[0], dtype=float) for e in ev]
            if prob.nobj == 1:
                best = min(range(len(cands)), key=lambda i: (float(objs[i][0]), i)); idx = [best]
            else: idx = _nondominated(objs)
            if case.get("front_order") == "rev": idx = idx[::-1]
            # what the optimiser returns (decisions and objective vectors of the whole frontier, in order): the reference the
            # multi-objective choice is judged against, whatever the protocol later stores in miscout
            self.last = {"decn": [cands[i].tolist() for i in idx], "obj": [[_hx(v) for v in objs[i]] for i in idx], "float": cands[0].dtype.kind == "f"}
            return Soln(ndecn=prob.ndecn, decn_space=prob.decn_space, decn_space_lower=prob.decn_space_lower, decn_space_upper=prob.decn_space_upper,
                        nobj=prob.nobj, obj_wt=prob.obj_wt, nineqcv=prob.nineqcv, ineqcv_wt=prob.ineqcv_wt, neqcv=prob.neqcv, eqcv_wt=prob.eqcv_wt,
                        nsoln=len(idx), soln_decn=numpy.stack([cands[i] for i in idx]), soln_obj=numpy.stack([objs[i] for i in idx]),
                        soln_ineqcv=numpy.stack([numpy.asarray(ev[i][1], dtype=float) for i in idx]),
                        soln_eqcv=numpy.stack([numpy.asarray(ev[i][2], dtype=float) for i in idx]))
    return Stub()

def _numj(v):
    v = float(v)
    return int(v) if v.is_integer() else _hx(v)

def _prob_record(prob):
    """the decision space of the problem an optimiser is handed: number of decision variables, the space itself (the admissible
    members for a subset encoding, the stacked bounds for a vector encoding), both bounds, and the problem's own cross map"""
    sp = numpy.asarray(prob.decn_space)
    rec = {"ndecn": int(prob.ndecn), "space_shape": list(sp.shape),
           "space": [_numj(v) for v in sp] if sp.ndim == 1 else [[_numj(v) for v in r] for r in sp],
           "lower": [_numj(v) for v in numpy.ravel(prob.decn_space_lower)], "upper": [_numj(v) for v in numpy.ravel(prob.decn_space_upper)]}
    if hasattr(prob, "decn_space_xmap"):
        xm = numpy.asarray(prob.decn_space_xmap)
        rec["nxmap"] = int(len(xm)); rec["xmap"] = xm.astype(int).tolist()
    return rec

def _recording(algo):
    """minimize() of the optimiser first records the problem it is handed (what the protocol's problem() built at THIS call)"""
    orig = algo.minimize
    def minimize(*a, **kw):
        prob = kw["prob"] if "prob" in kw else a[0]
        algo.probrec = _prob_record(prob)
        return orig(*a, **kw)
    algo.minimize = minimize
    algo.probrec = None
    return algo

def _wsum_trans(mat, w, **kwargs):
    """harness transformation of the front with exact (dyadic) values: weighted sum of the objectives"""
    return numpy.asarray(mat, dtype=float).dot(numpy.asarray(w, dtype=float))

def _sqdist_trans(mat, c, **kwargs):
    """harness transformation of the front, NOT positively homogeneous: squared distance of every point to the reference point c"""
    d = numpy.asarray(mat, dtype=float) - numpy.asarray(c, dtype=float)
    return (d * d).sum(1)

def _step_trans(mat, w, **kwargs):
    """harness transformation of the front with few values (ties are the rule), not homogeneous: 0 / 1 / 2 for a weighted sum
    below / at / above the middle of its range"""
    v = numpy.asarray(mat, dtype=float).dot(numpy.asarray(w, dtype=float))
    return numpy.sign(v - (v.min() + v.max()) / 2.0) + 1.0

def _ref_vec_dist(mat, obj_wt, vec_wt):
    """the documented default transformation (distance of each point, objectives signed and scaled to [0,1] over the front, to the
    line spanned by the preference vector), written out here from its documentation"""
    m = numpy.asarray(mat, dtype=float) * numpy.asarray(obj_wt, dtype=float)
    m = m - m.min(0)
    mx = m.max(0); mask = (mx == 0.0); mx[mask] = 1.0
    sc = 1.0 / mx; sc[mask] = 0.0
    m = sc * m
    v = numpy.asarray(vec_wt, dtype=float)
    s = m.dot(v) * (1.0 / v.dot(v))
    return numpy.linalg.norm(m - numpy.outer(s, v), axis=1)

def _mo_decl(case):
    """(kind, keyword arguments) of the transformation of the front the case DECLARES to the protocol"""
    kind = case.get("ndset") or "default"
    no = case["nobj"]
    if kind == "default": return kind, {"obj_wt": [1.0] * no, "vec_wt": [1.0] * no}
    if kind == "dist": return kind, {"obj_wt": list(case["ndset_obj_wt"]), "vec_wt": list(case["ndset_vec_wt"])}
    if kind == "sqdist": return kind, {"c": [v * 2.0 ** case.get("bvexp", 0) for v in case["ndset_c"]]}
    return kind, {"w": list(case["ndset_w"])}

def _ref_trans(case, objs):
    """the declared transformation applied by the harness itself to a front (rows of binary64 objective values)"""
    kind, kw = _mo_decl(case)
    mat = numpy.array(objs, dtype=float)
    if kind in ("default", "dist"): return _ref_vec_dist(mat, kw["obj_wt"], kw["vec_wt"])
    return {"wsum": _wsum_trans, "sqdist": _sqdist_trans, "step": _step_trans}[kind](mat, **kw)

def _exact_keys(case, objs):
    """rationals ordered like ndset_wt * (declared transformation) over the front, computed exactly from the recorded binary64
    objective values (for the distance transformation: sign(ndset_wt) * squared distance)"""
    kind, kw = _mo_decl(case)
    wt = F(1.0 if case.get("ndset_wt") is None else case["ndset_wt"])
    M = [[F(v) for v in r] for r in objs]
    if not M: return []
    no = len(M[0])
    if kind in ("default", "dist"):
        ow = [F(v) for v in kw["obj_wt"]]; vw = [F(v) for v in kw["vec_wt"]]
        M = [[r[j] * ow[j] for j in range(no)] for r in M]
        mn = [min(r[j] for r in M) for j in range(no)]
        M = [[r[j] - mn[j] for j in range(no)] for r in M]
        mx = [max(r[j] for r in M) for j in range(no)]
        M = [[(r[j] / mx[j]) if mx[j] != 0 else F(0) for j in range(no)] for r in M]
        vv = sum(v * v for v in vw)
        keys = []
        for r in M:
            sc = sum(r[j] * vw[j] for j in range(no)) / vv
            keys.append(sum((r[j] - sc * vw[j]) ** 2 for j in range(no)) * (1 if wt > 0 else -1))
        return keys
    if kind == "sqdist":
        c = [F(v) for v in kw["c"]]
        return [wt * sum((r[j] - c[j]) ** 2 for j in range(no)) for r in M]
    w = [F(v) for v in kw["w"]]
    v = [sum(r[j] * w[j] for j in range(no)) for r in M]
    if kind == "wsum": return [wt * x for x in v]
    mid = (min(v) + max(v)) / 2
    return [wt * (((x > mid) - (x < mid)) + 1) for x in v]

def _make_protocol(case, enc_algo_rng=None):
    fam, enc = case["family"], case["enc"]
    from pybrops.breed.prot.sel.prob import trans as T
    kw = dict(ncross=case["ncross"], nparent=case["nparent"], nmating=_ival(case["nmating"], 0), nprogeny=_ival(case["nprogeny"], 0), nobj=case["nobj"])
    ow = case.get("obj_wt")
    if ow is not None: kw["obj_wt"] = numpy.array(ow, dtype=float) if isinstance(ow, list) else float(ow)
    if case.get("obj_trans") == "sum": kw["obj_trans"] = T.trans_sum
    if case.get("ndset") in ("wsum", "sqdist", "step", "dist"):
        kind, tk = _mo_decl(case)
        if kind != "dist": kw["ndset_trans"] = {"wsum": _wsum_trans, "sqdist": _sqdist_trans, "step": _step_trans}[kind]
        elif case.get("ndset_explicit"): kw["ndset_trans"] = T.trans_ndpt_to_vec_dist       # the default function handed in explicitly
        kw["ndset_trans_kwargs"] = {k: numpy.array(v, dtype=float) for k, v in tk.items()}
    if case.get("ndset_wt") is not None: kw["ndset_wt"] = float(case["ndset_wt"])
    algo = case["algo"]
    if algo == "sorting":
        from pybrops.opt.algo.SortingSubsetOptimizationAlgorithm import SortingSubsetOptimizationAlgorithm
        so = SortingSubsetOptimizationAlgorithm()
    elif algo == "sortinghc":
        from pybrops.opt.algo.SortingSteepestDescentSubsetHillClimber import SortingSteepestDescentSubsetHillClimber
        so = SortingSteepestDescentSubsetHillClimber()
    elif algo == "hc":
        from pybrops.opt.algo.SteepestDescentSubsetHillClimber import SteepestDescentSubsetHillClimber
        so = SteepestDescentSubsetHillClimber(rng=numpy.random.Generator(numpy.random.PCG64(case["draw"]["seed"])))
    elif algo == "ga":
        from pybrops.opt.algo.SubsetGeneticAlgorithm import SubsetGeneticAlgorithm
        so = SubsetGeneticAlgorithm(ngen=6, pop_size=12, rng=numpy.random.Generator(numpy.random.PCG64(case["draw"]["seed"])))
    else: so = _stub_algo(enc, case)
    kw["soalgo"] = _recording(so); kw["moalgo"] = _recording(_stub_algo(enc, case))
    sfx = ENC_SUFFIX[enc]
    if fam == "ebv":
        import pybrops.breed.prot.sel.EstimatedBreedingValueSelection as Mod
        P = getattr(Mod, "EstimatedBreedingValue%sSelection" % sfx); kw.update(ntrait=case["ntrait"], unscale=case.get("unscale", True))
    elif fam == "gebv":
        import pybrops.breed.prot.sel.GenomicEstimatedBreedingValueSelection as Mod
        P = getattr(Mod, "GenomicEstimatedBreedingValue%sSelection" % sfx); kw.update(ntrait=case["ntrait"], unscale=case.get("unscale", True))
    elif fam == "ocs":
        import pybrops.breed.prot.sel.OptimalContributionSelection as Mod
        from pybrops.popgen.cmat.fcty.DenseMolecularCoancestryMatrixFactory import DenseMolecularCoancestryMatrixFactory
        P = getattr(Mod, "OptimalContribution%sSelection" % sfx); kw.update(ntrait=case["ntrait"], unscale=case.get("unscale", True), cmatfcty=DenseMolecularCoancestryMatrixFactory())
    elif fam == "random":
        import pybrops.breed.prot.sel.RandomSelection as Mod
        P = getattr(Mod, "Random%sSelection" % sfx); kw.update(ntrait=case["ntrait"])
    elif fam == "ohv":
        import pybrops.breed.prot.sel.OptimalHaploidValueSelection as Mod
        P = getattr(Mod, "OptimalHaploidValue%sSelection" % sfx); kw.update(ntrait=case["ntrait"], nhaploblk=2, unique_parents=case.get("unique", True))
    elif fam == "uc":
        import pybrops.breed.prot.sel.UsefulnessCriterionSelection as Mod
        from pybrops.model.vmat.fcty.DenseTwoWayDHAdditiveGeneticVarianceMatrixFactory import DenseTwoWayDHAdditiveGeneticVarianceMatrixFactory
        from pybrops.popgen.gmap.HaldaneMapFunction import HaldaneMapFunction
        P = getattr(Mod, "UsefulnessCriterion%sSelection" % sfx)
        kw.update(ntrait=case["ntrait"], nself=0, upper_percentile=0.25, vmatfcty=DenseTwoWayDHAdditiveGeneticVarianceMatrixFactory(),
                  gmapfn=HaldaneMapFunction(), unique_parents=case.get("unique", True))
    else: raise ValueError(fam)
    return P(**kw), so

def _select_once(case, perm=None, with_crit=True, stage=None, keep=None, step=None):
    """`stage` (a list) receives the step reached: "construct" (the protocol's constructor), "select", "done".
    `keep` (a dict) receives the protocol, its optimiser, the generator and the population objects; with `step` given the call is
    a further select() on those SAME objects after the changes the step describes (setters / in-place breeding values / another
    population)"""
    stage = [] if stage is None else stage
    if step is None:
        pg, bv, gm = _population(case, perm)
        rng = _lazy(case["draw"])
    else:
        rng = keep["rng"]; pg, bv, gm = keep["pop"]
        if "perm" in step: pg, bv, gm = _population(case, step["perm"])
    out = {}
    with _patched_global(rng):
        stage.append("construct")
        if step is None:
            prot, so = _make_protocol(case)
            if keep is not None: keep.update(prot=prot, so=so, rng=rng, pop=(pg, bv, gm))
        else:
            prot, so = keep["prot"], keep["so"]
            for k in ("ncross", "nparent", "nmating", "nprogeny"):
                if k in step.get("set", {}): setattr(prot, k, _ival(step["set"][k], 0))
            if "bv" in step: bv.mat[...] = numpy.array(step["bv"], dtype=float) / 8.0 * 2.0 ** case.get("bvexp", 0)
        misc = {} if case.get("miscout", True) else None
        args = dict(pgmat=pg, gmat=pg, ptdf=None, bvmat=bv, gpmod=gm, t_cur=0, t_max=1)
        stage.append("select")
        prot.soalgo.probrec = None; prot.moalgo.probrec = None
        cfg = prot.select(miscout=misc, **args)
        stage.append("done")
        out["space"] = (prot.soalgo if case["nobj"] == 1 else prot.moalgo).probrec
        out["draws"] = rng.used; rng.used = []
        x = numpy.asarray(cfg.xconfig)
        out["xconfig"] = x.tolist(); out["shape"] = list(x.shape); out["dtype"] = str(x.dtype)
        d = numpy.asarray(cfg.xconfig_decn)
        out["decn"] = [_hx(v) for v in d] if d.dtype.kind == "f" else [int(v) for v in d]
        out["decn_dtype"] = str(d.dtype)
        if d.dtype.kind == "f": out["order"] = [int(i) for i in d.argsort()[::-1]]
        out["ncross"] = int(cfg.ncross); out["nparent"] = int(cfg.nparent)
        out["nmating"] = [int(v) for v in cfg.nmating]; out["nprogeny"] = [int(v) for v in cfg.nprogeny]
        out["pgmat_same"] = cfg.pgmat is pg
        out["cfg_class"] = type(cfg).__name__
        if hasattr(cfg, "xconfig_xmap"): out["xmap"] = numpy.asarray(cfg.xconfig_xmap).tolist()
        if misc is not None:
            out["misc_keys"] = sorted(k for k in misc.keys() if k in ("sosoln", "mosoln"))
            s = misc.get("sosoln", misc.get("mosoln"))
            if s is not None:
                sd = numpy.asarray(s.soln_decn)
                out["soln_decn"] = [[_hx(v) for v in r] for r in sd] if sd.dtype.kind == "f" else sd.astype(int).tolist()
                out["soln_obj"] = [[_hx(v) for v in r] for r in numpy.asarray(s.soln_obj, dtype=float)]
                out["nsoln"] = int(s.nsoln)
                out["soln_class"] = type(s).__name__
                if hasattr(s, "decn_space_xmap"): out["soln_xmap_same"] = bool(numpy.array_equal(s.decn_space_xmap, cfg.xconfig_xmap))
                out["decn_is_soln_row"] = bool(numpy.shares_memory(d, s.soln_decn))
                if case["nobj"] > 1:
                    tv = numpy.asarray(prot.ndset_trans(s.soln_obj, **prot.ndset_trans_kwargs), dtype=float)
                    out["tvals"] = [_hx(v) for v in tv]; out["ndset_wt"] = _hx(prot.ndset_wt)
        if case["nobj"] > 1:
            last = getattr(prot.moalgo, "last", None)
            if last is not None:
                out["stub_decn"] = [[_hx(v) for v in r] for r in last["decn"]] if last["float"] else [[int(v) for v in r] for r in last["decn"]]
                out["stub_obj"] = last["obj"]
        out["stub_calls"] = getattr(so, "ncalls", None)
        if case["enc"] == "imate":
            algo = prot.soalgo if case["nobj"] == 1 else prot.moalgo
            b = getattr(algo, "bounds", None)
            if b is not None: out["bounds"] = [[int(v) if float(v).is_integer() else _hx(float(v)) for v in numpy.ravel(r)] for r in b]
        out["post_draws"] = rng.used; rng.used = []
        # the per-candidate criterion of the protocol's own problem (what a truncation optimiser sorts)
        # (Random*Selection draws its criterion from the generator: in a later call of a session the stream has moved on, a fresh
        #  protocol cannot reproduce it - there the truncation clause is not judged, the configuration clauses are)
        if with_crit and case["nobj"] == 1 and case["enc"] in ("subset", "mate") and not (step is not None and case["family"] == "random"):
            prng = _lazy(dict(case["draw"]))                     # Random*Selection draws its breeding values while building the problem
            with _patched_global(prng):
                prot2, _ = _make_protocol(case)
                prob = prot2.problem(**args)
                # every row of the problem's own cross map / every candidate of the population, whatever decision space the
                # protocol handed to the optimiser
                nunit = len(prob.decn_space_xmap) if case["enc"] == "mate" else int(pg.ntaxa)
                out["crit"] = [_hx(float(numpy.asarray(prob.evalfn(numpy.array([e]))[0]).ravel()[0])) for e in range(nunit)]
                out["ndecn"] = int(prob.ndecn)
    return out

def _session_cases(case):
    """the case each further select() of a session is equivalent to (a fresh protocol built with the values in force, on the
    population as it is at that call, in the candidates' original labelling for the predicate)"""
    cur = {k: v for k, v in case.items() if k not in ("session", "relabel")}
    out = []
    for st in case.get("session", []):
        cur = dict(cur, **st.get("set", {}))
        if "bv" in st: cur = dict(cur, bv=st["bv"])
        out.append((dict(cur), st))
    return out

def _run_select(case):
    out = {}; stage = []; keep = {}
    try:
        out.update(_select_once(case, stage=stage, keep=keep))
    except Exception as e:
        import traceback
        out["raised"] = type(e).__name__; out["msg"] = str(e)[:300]; out["tb"] = traceback.format_exc()[-600:]
        out["stage"] = stage[-1] if stage else "population"
        return out
    if case.get("session"):
        out["session"] = []
        for cur, st in _session_cases(case):
            try:
                # `cur` describes the state in force: the criterion of a fresh protocol is computed for it (on the relabelled population if the step has one)
                r = _select_once(dict(cur, relabel=None), perm=st.get("perm"), keep=keep, step=st)
                out["session"].append(r)
            except Exception as e:
                import traceback
                out["session"].append({"raised": type(e).__name__, "msg": str(e)[:300], "tb": traceback.format_exc()[-600:]}); break
    if case.get("relabel"):
        try:
            r = _select_once(case, perm=case["relabel"], with_crit=True)
            out["relabel"] = {k: r.get(k) for k in ("decn", "xconfig", "crit", "xmap", "space", "ndecn")}
        except Exception as e:
            out["relabel"] = {"raised": type(e).__name__, "msg": str(e)[:300]}
    # the same population relabelled so that its best candidate crosses are crosses among the HIGHEST-index taxa: they sit in the
    # tail of the cross map (selfs of the last taxa included when parents may repeat)
    tp = _tail_perm(case, out)
    if tp is not None:
        try:
            r = _select_once(case, perm=tp, with_crit=True)
            out["tail"] = dict({k: r.get(k) for k in ("decn", "xconfig", "crit", "xmap", "space", "ndecn")}, perm=tp)
        except Exception as e:
            out["tail"] = {"raised": type(e).__name__, "msg": str(e)[:300], "perm": tp}
    return out

def _tail_perm(case, out):
    """relabelling (new candidate i is old candidate perm[i]) that sends the parents of the best ncross rows of the cross map (by
    the recorded criterion, smaller is better, first row on ties) to the highest indices, the best first; None if that is the
    identity or the case has no per-row criterion"""
    if case["enc"] != "mate" or case["nobj"] != 1 or "crit" not in out or not out.get("xmap"): return None
    crit = [F(_fh(h)) for h in out["crit"]]; xmap = out["xmap"]; n = case["ntaxa"]
    if len(crit) != len(xmap): return None
    top = sorted(range(len(crit)), key=lambda i: (crit[i], i))[:case["ncross"]]
    first = []
    for r in top:
        for t in xmap[r]:
            if t not in first and 0 <= t < n: first.append(t)
    perm = [t for t in range(n) if t not in first] + first[::-1]
    return None if perm == list(range(n)) else perm

# ================================================================== Coq emitter
def _nl(xs): return E.lst(xs, E.nat)
def _zl(xs): return E.lst(xs, E.z)
def _nll(xss): return E.lst(xss, _nl)

def _split_draws(draws, first):
    """[first request, shuffle(t), shuffle...] -> (first record, perm, pms) or None if the request sequence has another form"""
    if len(draws) < 2 or draws[0][0] != first or draws[1][0] != "shuffle": return None
    if any(d[0] != "shuffle" for d in draws[1:]): return None
    return draws[0], draws[1], [d[2] for d in draws[2:]]

def _cfg_term(cls, nc, npar, decn, draws, order=None, xmap=None, dvar=None):
    """(Coq term computing the model's xconfig : option (list Z) | option (list (list Z)), side condition text) or None"""
    t = nc * npar
    if cls == "integer":
        # start = rng.choice(noption); rng.shuffle(out); then the shared tail
        sp = _split_draws(draws, "choice")
        if sp is None or any(v < 0 for v in decn): return None
        ch, sh, pms = sp
        if ch[1] != sum(decn) or ch[2] is not None or ch[4] is not False or len(ch[5]) != 1 or sh[1] != t: return None
        return "(cfg_integer %s %s %s %s %s %s)" % (E.nat(nc), E.nat(npar), dvar or _zl(decn), E.nat(ch[5][0]), _nl(sh[2]), _nll(pms))
    if cls == "imate":
        if len(draws) != 2 or draws[0][0] != "choice" or draws[1][0] != "shuffle" or any(v < 0 for v in decn): return None
        ch, sh = draws
        if ch[1] != sum(decn) or ch[2] is not None or ch[4] is not False or len(ch[5]) != 1 or sh[1] != nc: return None
        return "(cfg_integer_mate %s %s %s %s %s %s)" % (E.nat(nc), E.nat(npar), dvar or _zl(decn), E.lst(xmap, _zl), E.nat(ch[5][0]), _nl(sh[2]))
    if cls in ("subset", "binary"):
        sp = _split_draws(draws, "choice")
        if sp is None: return None
        ch, sh, pms = sp
        if cls == "subset": nopt = len(decn)
        else:
            if any(v < 0 for v in decn): return None
            nopt = sum(decn)
        re = (t % nopt) if nopt else 0
        if ch[1] != nopt or ch[2] != re or ch[3] is not False or ch[4] is not False or sh[1] != t: return None
        fn = {"subset": "cfg_subset", "binary": "cfg_binary"}[cls]
        return "(%s %s %s %s %s %s %s)" % (fn, E.nat(nc), E.nat(npar), dvar or _zl(decn), _nl(ch[5]), _nl(sh[2]), _nll(pms))
    if cls == "real":
        sp = _split_draws(draws, "uniform")
        if sp is None: return None
        un, sh, pms = sp
        if _fh(un[1]) != 0.0 or sh[1] != t: return None
        p = E.lst(decn, E.fhex)
        core = "(cfg_real_f %s %s %s %s %s %s %s)" % (E.nat(nc), E.nat(npar), dvar or p, _nl(order), E.fhex(_fh(un[3])), _nl(sh[2]), _nll(pms))
        side = "PrimFloat.eqb (sus_dist_f (fsum %s) %s) %s && order_ok (map f2q %s) %s" % (p, E.nat(t), E.fhex(_fh(un[2])), p, _nl(order))
        return core, side
    if cls == "rmate":
        # offset = rng.uniform(0, ptr_dist); rng.shuffle(sel) inside the sampler; rng.shuffle(out); lookup
        if len(draws) != 3 or draws[0][0] != "uniform" or draws[1][0] != "shuffle" or draws[2][0] != "shuffle": return None
        un, sh, sh2 = draws
        if _fh(un[1]) != 0.0 or sh[1] != nc or sh2[1] != nc: return None
        p = E.lst(decn, E.fhex)
        core = "(cfg_real_mate_f %s %s %s %s %s %s %s %s)" % (E.nat(nc), E.nat(npar), dvar or p, E.lst(xmap, _zl), _nl(order), E.fhex(_fh(un[3])), _nl(sh[2]), _nl(sh2[2]))
        side = "PrimFloat.eqb (sus_dist_f (fsum %s) %s) %s && order_ok (map f2q %s) %s" % (p, E.nat(nc), E.fhex(_fh(un[2])), p, _nl(order))
        return core, side
    if cls in ("mate", "bmate"):
        if len(draws) != 3 or draws[0][0] != "choice" or draws[1][0] != "shuffle" or draws[2][0] != "shuffle": return None
        ch, sh, sh2 = draws
        if cls == "bmate":
            if any(v < 0 for v in decn): return None
            nopt = sum(decn); re = (nc % nopt) if nopt else 0
            if ch[1] != nopt or ch[2] != re or ch[3] is not False or ch[4] is not False or sh[1] != nc or sh2[1] != nc: return None
            return "(cfg_binary_mate %s %s %s %s %s %s %s)" % (E.nat(nc), E.nat(npar), dvar or _zl(decn), E.lst(xmap, _zl), _nl(ch[5]), _nl(sh[2]), _nl(sh2[2]))
        nopt = len(decn); re = (nc % nopt) if nopt else 0
        if ch[1] != nopt or ch[2] != re or ch[3] is not False or ch[4] is not False or sh[1] != nc or sh2[1] != nc: return None
        return "(cfg_mate %s %s %s %s %s %s %s)" % (E.nat(nc), E.nat(npar), dvar or _zl(decn), E.lst(xmap, _zl), _nl(ch[5]), _nl(sh[2]), _nl(sh2[2]))
    return None

def _flat(x): return [v for r in x for v in r]

def _emit_cfg(case, out):
    cls = case["cls"]; nc, npar = case["ncross"], case["nparent"]
    if case["dtype"] == "float64": decn = [_fh(h) if isinstance(h, str) else float(h) for h in case["decn"]]
    else: decn = [int(v) for v in case["decn"]]
    if "raised" in out:
        # both fail: the model with the draws consumed so far (completed by nothing) must not produce a configuration
        if (cls in REAL_LIKE) != (case["dtype"] == "float64"): return None   # dtype checks: predicate only
        if not (isinstance(case["nmating"], int) and case["nmating"] > 0 and isinstance(case["nprogeny"], int) and case["nprogeny"] > 0):
            # (also reached by valid array-valued parameters: then the model's argument check must pass and nothing is claimed here)
            ok = _cfg_invalid(dict(case, decn=[0], dtype="int64", cls="subset")) is None
            return "(Bool.eqb (cfg_args_ok %s %s %s %s) %s)" % (E.nat(nc), E.nat(npar), _matpar(case["nmating"]), _matpar(case["nprogeny"]), E.b(ok))
        if cls in REAL_LIKE:
            if sum(decn) > 0: return "false"
            return None                                                             # an all-zero contribution vector: predicate only
        t = nc * npar
        if cls == "integer":                                   # no start and no shuffle make the model produce a configuration
            return "(forallb (fun st => ozl_eqb (cfg_integer %s %s %s st %s []) None) (seq 0 %s))" % (E.nat(nc), E.nat(npar), _zl(decn), _nl(range(t)), E.nat(max(1, sum(v for v in decn if v > 0))))
        if cls == "imate":
            return "(forallb (fun st => ozll_eqb (cfg_integer_mate %s %s %s %s st %s) None) (seq 0 %s))" % (E.nat(nc), E.nat(npar), _zl(decn), E.lst(case["xmap"], _zl), _nl(range(nc)), E.nat(max(1, sum(v for v in decn if v > 0))))
        fn = {"subset": "cfg_subset", "binary": "cfg_binary", "mate": "cfg_mate", "bmate": "cfg_binary_mate"}[cls]
        if cls in ("mate", "bmate"):
            return "(ozll_eqb (%s %s %s %s %s [] %s %s) None)" % (fn, E.nat(nc), E.nat(npar), _zl(decn), E.lst(case["xmap"], _zl),
                                                                   _nl(range(nc)), _nl(range(nc)))
        return "(ozl_eqb (%s %s %s %s [] %s []) None)" % (fn, E.nat(nc), E.nat(npar), _zl(decn), _nl(range(t)))
    parts = ["cfg_args_ok %s %s %s %s" % (E.nat(nc), E.nat(npar), _matpar(case["nmating"]), _matpar(case["nprogeny"]))]
    for which, xc, draws in (("first", out["xconfig"], out["draws"]), ("second", out["second"]["xconfig"], out["second"]["draws"])):
        tm = _cfg_term(cls, nc, npar, decn, draws, out.get("order"), case.get("xmap"))
        if tm is None: return "false"
        if cls == "real":
            core, side = tm
            parts.append("ozl_eqb %s (Some %s)" % (core, _zl(_flat(xc)))); parts.append(side)
        elif cls == "rmate":
            core, side = tm
            parts.append("ozll_eqb %s (Some %s)" % (core, E.lst(xc, _zl))); parts.append(side)
        elif cls in CROSS_BASED:
            parts.append("ozll_eqb %s (Some %s)" % (tm, E.lst(xc, _zl)))
        else:
            parts.append("ozl_eqb %s (Some %s)" % (tm, _zl(_flat(xc))))
    if out["shape"] != [nc, npar]: return "false"
    return "(" + "\n  && ".join(parts) + ")"

def _emit_xmap(case, out):
    fn = case["fn"]
    if fn == "xmapix": term = "(xmapix %s %s %s)" % (E.nat(case["n"]), E.nat(case["k"]), E.b(case["unique"]))
    else: term = "(%s %s %s)" % (fn, E.nat(case["n"]), E.nat(case["k"]))
    if "raised" in out:
        return "(onatll_eqb %s None)" % term if out["raised"] == "RecursionError" else "false"
    return "(onatll_eqb %s (Some %s))" % (term, E.lst(out["out"], _nl))

def _emit_life(case, out):
    """every sampling of the session is the model's for the state in force at that call"""
    cls = case["cls"]
    if "raised" in out: return None                                  # every lifecycle request is valid: the predicate reports the exception
    parts = []
    for (nc, npar, decn, xmap), rec in zip(_life_states(case), out["steps"]):
        if rec["op"] not in ("init", "sample"): continue
        d = [_fh(h) for h in decn] if cls in REAL_LIKE else [int(v) for v in decn]
        tm = _cfg_term(cls, nc, npar, d, rec["draws"], rec.get("order"), xmap)
        if tm is None or rec["shape"] != [nc, npar]: return "false"
        if cls in REAL_LIKE: core, side = tm; parts.append(side)
        else: core = tm
        if cls in CROSS_BASED: parts.append("ozll_eqb %s (Some %s)" % (core, E.lst(rec["xconfig"], _zl)))
        else: parts.append("ozl_eqb %s (Some %s)" % (core, _zl(_flat(rec["xconfig"]))))
    return "(" + "\n  && ".join(parts) + ")"

def emit_case(case, out):
    if "exc" in out: return "false"
    if case["kind"] == "audit": return None
    if case["kind"] == "life": return _emit_life(case, out)
    if case["kind"] == "cfg": return _emit_cfg(case, out)
    if case["kind"] == "xmap": return _emit_xmap(case, out)
    if case["kind"] == "select": return _emit_select(case, out)
    return "false"

def _crit_ints(hs):
    """exact integer image of the per-candidate criteria (common power-of-two denominator)"""
    fr = [F(_fh(h)) for h in hs]
    den = 1
    for f in fr: den = max(den, f.denominator)
    return [int(f * den) for f in fr]

def _matpar(v):
    return "(MScalar %s)" % E.z(v) if isinstance(v, int) else "(MArray %s)" % _zl(v)

def _emit_select(case, out):
    first = _emit_select1(case, out)
    if "session" not in out or first in (None, "false") or "raised" in out: return first
    parts = [first]
    for (cur, st), o in zip(_session_cases(case), out["session"]):
        t = _emit_select1(cur, o)
        if t is None: continue
        parts.append(t)
    return "(" + "\n  && ".join(parts) + ")"

def _space_term(case, sp):
    """clause (a) against the model: the problem's cross map is the model's xmapix enumeration and the decision space handed to
    the optimiser is the model's (every row of that enumeration); None for the protocols over individuals (predicate only)"""
    enc, fam = case["enc"], case["family"]
    if enc not in CROSS_BASED: return None
    if sp is None or "xmap" not in sp: return "false"
    n, k, nc, u = E.nat(case["ntaxa"]), E.nat(case["nparent"]), E.nat(case["ncross"]), E.b(case.get("unique", True))
    ints = lambda xs: all(isinstance(v, int) for v in xs)
    if not (ints(sp["lower"]) and ints(sp["upper"]) and all(len(r) == case["nparent"] and all(v >= 0 for v in r) for r in sp["xmap"])): return "false"
    parts = ["onatll_eqb (xmapix %s %s %s) (Some %s)" % (n, k, u, E.lst(sp["xmap"], _nl))]
    if enc == "mate":
        if len(sp["space_shape"]) != 1 or not ints(sp["space"]): return "false"
        parts.append("osubspace_eqb (xmap_subset_space %s %s %s %s) (Some (%s, %s, %s, %s))" % (n, k, nc, u, _zl(sp["space"]), _zl(sp["lower"]), _zl(sp["upper"]), E.z(sp["ndecn"])))
    elif enc == "rmate":
        ql = lambda xs: E.lst(xs, lambda v: E.q(F(v)))
        parts.append("ovecspaceQ_eqb (xmap_vector_space %s %s %s %s %s) (Some (%s, %s, %s))" % (E.q(F(0)), E.q(F(1)), n, k, u, ql(sp["lower"]), ql(sp["upper"]), E.z(sp["ndecn"])))
    else:
        ncr = case["ncross"]
        nm = case["nmating"] if isinstance(case["nmating"], list) else [case["nmating"]] * ncr
        npg = case["nprogeny"] if isinstance(case["nprogeny"], list) else [case["nprogeny"]] * ncr
        up = "1%Z" if enc == "bmate" else ("(ohv_int_upper %s %s)" % (_zl(nm), _zl(npg)) if fam == "ohv" else "(uc_int_upper %s %s)" % (k, _zl(nm)))
        parts.append("ovecspaceZ_eqb (xmap_vector_space 0%%Z %s %s %s %s) (Some (%s, %s, %s))" % (up, n, k, u, _zl(sp["lower"]), _zl(sp["upper"]), E.z(sp["ndecn"])))
    return " && ".join(parts)

def _emit_select1(case, out):
    enc = case["enc"]; nc, npar = case["ncross"], case["nparent"]
    args_ok = "proto_args_ok %s %s %s %s" % (E.nat(nc), E.nat(npar), _matpar(case["nmating"]), _matpar(case["nprogeny"]))
    ucb = None
    if case["family"] == "uc" and enc == "imate" and "raised" not in out:
        # UsefulnessCriterionIntegerSelection.problem: the bounds of the decision space, one entry per candidate cross, as the model
        # computes them for this cross design (any number of crosses; repaired finding C07-uc-integer-bounds-shape)
        nx = len(list(itertools.combinations(range(case["ntaxa"]), npar) if case.get("unique", True) else itertools.combinations_with_replacement(range(case["ntaxa"]), npar)))
        nm = case["nmating"] if isinstance(case["nmating"], list) else [case["nmating"]] * nc
        b = out.get("bounds")
        if b is None or not all(isinstance(v, int) for r in b for v in r): return "false"
        ucb = "ozl2_eqb (uc_int_bounds %s %s %s %s) (Some (%s, %s))" % (E.nat(nc), E.nat(npar), _zl(nm), E.nat(nx), _zl(b[0]), _zl(b[1]))
    if "raised" in out:
        # the constructor refuses exactly the cross-design parameters the model refuses; other refusals are judged by the predicate
        return "(Bool.eqb (%s) %s)" % (args_ok, E.b(out.get("stage") != "construct"))
    if out["shape"] != [nc, npar]: return "false"
    real = enc in REAL_LIKE
    decn = [_fh(h) for h in out["decn"]] if real else [int(v) for v in out["decn"]]
    xc = out["xconfig"]
    # draws made while the problem is built (random breeding values of Random*Selection) precede the configuration's draws
    cdraws = list(out["draws"])
    while cdraws and cdraws[0][0] in ("mvnormal", "normal"): cdraws.pop(0)
    tm = _cfg_term(enc, nc, npar, decn, cdraws, out.get("order"), out.get("xmap"))
    if tm is None: return "false"
    parts = [args_ok]
    if ucb: parts.append(ucb)
    for c2, sp in [(case, out.get("space"))] + [(dict(case, ntaxa=len(case["relabel"] if t == "relabel" else out[t]["perm"])), out[t].get("space"))
                                                for t in ("relabel", "tail") if out.get(t) and "raised" not in out[t]]:
        st = _space_term(c2, sp)
        if st is not None: parts.append(st)
    if real: core, side = tm; parts.append(side)
    else: core = tm
    matelike = enc in CROSS_BASED
    want_xc = E.lst(xc, _zl) if matelike else _zl(_flat(xc))
    eqx = "ozll_eqb" if matelike else "ozl_eqb"
    soln = out.get("soln_decn")
    if case["nobj"] == 1:
        parts.append("%s %s (Some %s)" % (eqx, core, want_xc))
        if soln is not None and (len(soln) != 1 or soln[0] != out["decn"]): return "false"
        if case["algo"] in ("sorting", "sortinghc") and "crit" in out and case["family"] != "ocs":
            cz = _crit_ints(out["crit"]); k = out["ndecn"]
            if len(set(cz)) == len(cz):
                parts.append("onatl_eqb (sort_select %s %s) (Some %s)" % (_zl(cz), E.nat(k), _nl(decn)))
                if enc == "subset" and k == nc * npar:
                    sp = _split_draws(cdraws, "choice")
                    parts.append("ozl2_eqb (select_sort_subset %s %s %s %s %s %s) (Some (%s, %s))"
                                 % (E.nat(nc), E.nat(npar), _zl(cz), _nl(sp[0][5]), _nl(sp[1][2]), _nll(sp[2]), _zl(decn), want_xc))
            else:
                parts.append("is_topk %s %s %s" % (_zl(cz), _nl(decn), E.nat(k)))
            # the relabelled runs (a permutation of the case / the best crosses moved to the tail of the map): again the sorting
            # optimiser over the WHOLE map / population
            if case["family"] != "random":
                for t in ("relabel", "tail"):
                    rl = out.get(t)
                    if not rl or "raised" in rl or not rl.get("crit"): continue
                    cz2 = _crit_ints(rl["crit"]); d2 = [int(v) for v in rl["decn"]]
                    if any(v < 0 for v in d2): return "false"
                    if len(set(cz2)) == len(cz2): parts.append("onatl_eqb (sort_select %s %s) (Some %s)" % (_zl(cz2), E.nat(k), _nl(d2)))
                    else: parts.append("is_topk %s %s %s" % (_zl(cz2), _nl(d2), E.nat(k)))
    else:
        if soln is None or "tvals" not in out:                          # miscout=None: the front is not observable, configuration only
            parts.append("%s %s (Some %s)" % (eqx, core, want_xc))
        else:
            tv = [_fh(h) for h in out["tvals"]]
            if any(math.isnan(v) or math.isinf(v) for v in tv): return None
            front = E.lst(out["soln_obj"], lambda r: E.lst(r, lambda h: E.q(F(_fh(h)))))
            dl = (lambda d: E.lst([_fh(h) for h in d], E.fhex)) if real else _zl
            decns = E.lst(soln, dl)
            # the configuration as a function of the chosen decision: replace the literal decision inside the term by the bound variable
            lit = E.lst(decn, E.fhex) if real else _zl(decn)
            tmd = _cfg_term(enc, nc, npar, decn, cdraws, out.get("order"), out.get("xmap"), dvar="d")
            fcfg = "(fun d => %s)" % (tmd[0] if real else tmd)
            deq = "fl_eqb7 d %s" % lit if real else "zl_eqb d %s" % lit
            ceq = ("zll_eqb c %s" if matelike else "zl_eqb c %s") % want_xc
            parts.append("match select_mo %s (fun _ => %s) %s %s %s with Some (d, c) => %s && %s | None => false end"
                         % (E.q(F(_fh(out["ndset_wt"]))), E.lst(tv, lambda v: E.q(F(v))), front, decns, fcfg, deq, ceq))
        if out.get("stub_obj") is not None:
            # the model's choice over the front the optimiser returned, under the DECLARED weight and transformation (values of the
            # transformation computed by the harness from the case, not by the protocol): mo_choice picks the configuration's decision
            sobj = [[_fh(h) for h in r] for r in out["stub_obj"]]
            rt = [float(v) for v in _ref_trans(case, sobj)]
            if len(rt) == len(sobj) and all(math.isfinite(v) for v in rt):
                dl = (lambda d: E.lst([_fh(h) for h in d], E.fhex)) if real else _zl
                lit = E.lst(decn, E.fhex) if real else _zl(decn)
                wt = 1.0 if case.get("ndset_wt") is None else float(case["ndset_wt"])
                parts.append("match mo_choice %s (fun _ => %s) %s %s with Some d => %s | None => false end"
                             % (E.q(F(wt)), E.lst(rt, lambda v: E.q(F(v))), E.lst(sobj, lambda r: E.lst(r, lambda v: E.q(F(v)))),
                                E.lst(out["stub_decn"], dl), ("fl_eqb7 d %s" if real else "zl_eqb d %s") % lit))
    return "(" + "\n  && ".join(parts) + ")"

# ================================================================== independent predicate
def _score(rows): return sum(len(r) - len(set(r)) for r in rows)

def _local_opt(xc):
    """no single exchange of two entries lowers the number of repeated individuals within crosses"""
    if not xc: return None
    m = len(xc[0]); flat = _flat(xc); N = len(flat); s0 = _score(xc)
    for i in range(N):
        for j in range(i + 1, N):
            if flat[i] == flat[j] or i // m == j // m: continue
            f = list(flat); f[i], f[j] = f[j], f[i]
            if _score([f[r * m:(r + 1) * m] for r in range(len(xc))]) < s0:
                return "exchanging entries (%d,%d) and (%d,%d) lowers the self-pairings from %d" % (i // m, i % m, j // m, j % m, s0)
    return None

def _floor(fr): return fr.numerator // fr.denominator
def _ceil(fr): return -((-fr.numerator) // fr.denominator)

def _valid_cfg(cls, nc, npar, decn, xc, xmap=None, strict_real=True):
    """the configuration clauses of the property for one sampled configuration `xc` built from decision `decn`"""
    bad = []
    t = nc * npar
    if len(xc) != nc or any(len(r) != npar for r in xc):
        return ["configuration has shape %r, requested (%d,%d)" % ([len(xc), len(xc[0]) if xc else 0], nc, npar)]
    flat = _flat(xc)
    if cls == "bmate":
        # 0/1 vector over the candidate crosses: the marked crosses are the units that are used evenly
        return _valid_cfg("mate", nc, npar, [i for i, x in enumerate(decn) for _ in range(int(x))], xc, xmap)
    if cls == "rmate":
        # contribution vector over the candidate crosses: cross d is used the floor or the ceiling of nc*x_d/sum(x) times
        rows = [tuple(r) for r in xc]
        S = sum(F(x) for x in decn); share = {}
        for d, x in enumerate(decn):
            if x > 0: share[tuple(xmap[d])] = share.get(tuple(xmap[d]), 0) + F(x) * nc / S
        for r in rows:
            if r not in share: bad.append("cross %r is not a candidate cross with a positive contribution in the chosen solution" % (list(r),)); break
        if len(share) == sum(1 for x in decn if x > 0):           # distinct rows: per-cross floor / ceiling
            for c, sh in share.items():
                n = rows.count(c)
                if not (_floor(sh) <= n <= _ceil(sh)): bad.append("candidate cross %r used %d times, proportional share %s" % (list(c), n, float(sh))); break
        return bad
    if cls == "imate":
        # integer vector over the candidate crosses of the map: cross d is used within one of its proportional share nc*x_d/sum(x)
        rows = [tuple(r) for r in xc]
        S = sum(decn); share = {}
        for d, x in enumerate(decn):
            if x > 0: share[tuple(xmap[d])] = share.get(tuple(xmap[d]), 0) + F(nc * x, S)
        for r in rows:
            if r not in share: bad.append("cross %r is not a candidate cross with a positive count in the chosen solution" % (list(r),)); break
        for c, sh in share.items():
            n = rows.count(c)
            if abs(n - sh) > 1: bad.append("candidate cross %r used %d times, more than one away from its proportional share %s" % (list(c), n, sh)); break
        if S == nc:
            for c, sh in share.items():
                if rows.count(c) != sh: bad.append("candidate cross %r used %d times, the solution dictates %s" % (list(c), rows.count(c), sh)); break
        return bad
    if cls == "mate":
        rows = [tuple(r) for r in xc]
        chosen = [tuple(xmap[d]) for d in decn]
        for r in rows:
            if r not in chosen: bad.append("cross %r is not a candidate cross of the chosen solution" % (list(r),)); break
        k = len(decn); q, re = divmod(nc, k)
        # positions of the decision vector are the units that are used evenly
        from collections import Counter
        cnt = Counter(rows); mult = Counter(chosen)
        for c, mu in mult.items():
            lo, hi = mu * q, mu * q + min(mu, re)
            if not (lo <= cnt.get(c, 0) <= hi): bad.append("candidate cross %r used %d times, expected between %d and %d" % (list(c), cnt.get(c, 0), lo, hi)); break
        return bad
    if cls == "subset":
        members = {}
        for d in decn: members[d] = members.get(d, 0) + 1
        k = len(decn); q, re = divmod(t, k)
        for v in flat:
            if v not in members: bad.append("individual %d is not in the chosen subset" % v); break
        for v, mu in members.items():
            c = flat.count(v); lo, hi = mu * q, mu * q + min(mu, re)
            if not (lo <= c <= hi): bad.append("member %d used %d times, expected %s" % (v, c, ("%d or %d" % (q, q + 1)) if mu == 1 else ("between %d and %d" % (lo, hi)))); break
        if max(members.values()) == 1:
            cs = [flat.count(v) for v in members]
            if max(cs) - min(cs) > 1: bad.append("members are not used evenly: usage %r" % cs)
    elif cls in ("integer", "binary"):
        S = sum(decn); q, re = divmod(t, S)
        for v in flat:
            if not (0 <= v < len(decn)) or decn[v] <= 0: bad.append("individual %d has no share in the chosen solution" % v); break
        for i, x in enumerate(decn):
            c = flat.count(i); lo, hi = x * q, x * q + min(x, re)
            if not (lo <= c <= hi): bad.append("individual %d with count %d used %d times, expected between %d and %d" % (i, x, c, lo, hi)); break
            share = F(t * x, S)
            if abs(c - share) > 1: bad.append("individual %d used %d times, more than one away from its proportional share %s" % (i, c, share)); break
    elif cls == "real":
        S = sum(F(x) for x in decn)
        for v in flat:
            if not (0 <= v < len(decn)): bad.append("individual %d is not a candidate" % v); break
        for i, x in enumerate(decn):
            c = flat.count(i); share = F(x) * t / S
            if x == 0 and c: bad.append("individual %d has zero contribution but was used %d times" % (i, c)); break
            if not (_floor(share) <= c <= _ceil(share)) if strict_real else abs(c - share) > 1:
                bad.append("individual %d used %d times, proportional share %s" % (i, c, float(share))); break
    lo = _local_opt(xc)
    if lo: bad.append(lo)
    return bad

def _cfg_invalid(case):
    """reason why the arguments are not a valid configuration request (then raising is the correct behaviour), else None"""
    cls = case["cls"]; nc, npar = case["ncross"], case["nparent"]
    if nc <= 0 or npar <= 0: return "shape"
    for key in ("nmating", "nprogeny"):
        v = case[key]
        if isinstance(v, int):
            if v <= 0: return key
        elif len(v) != nc or any(x <= 0 for x in v): return key
    fl = case["dtype"] == "float64"
    if (cls in REAL_LIKE) != fl: return "dtype"
    d = case["decn"]
    if len(d) == 0: return "empty"
    if cls in REAL_LIKE:
        w = [_fh(h) if isinstance(h, str) else float(h) for h in d]
        if any(x < 0 for x in w) or sum(w) <= 0: return "weights"
    if cls in ("integer", "binary", "imate", "bmate"):
        if any(x < 0 for x in d) or sum(d) <= 0: return "counts"
        if cls == "binary" and any(x not in (0, 1) for x in d): return "not binary"
    if cls == "mate":
        xm = case["xmap"]
        if any(len(r) != npar for r in xm): return "xmap width"
        if any(not (0 <= x < len(xm)) for x in d): return "xmap index"
    if cls in ("imate", "bmate", "rmate"):
        xm = case["xmap"]
        if any(len(r) != npar for r in xm): return "xmap width"
        if len(d) != len(xm): return "xmap length"
    return None

def _pred_cfg(case, out):
    bad = []
    inv = _cfg_invalid(case)
    if "raised" in out:
        if inv is None: return ["%sSelectionConfiguration raised %s: %s" % (case["cls"], out["raised"], out["msg"])]
        return []
    if inv in ("shape", "nmating", "nprogeny", "dtype", "not binary", "xmap width"):
        return ["invalid request (%s) was accepted" % inv]
    if inv is not None: return []                      # degenerate vectors (all-zero weights): no claim
    cls = case["cls"]; nc, npar = case["ncross"], case["nparent"]
    decn = [_fh(h) for h in case["decn"]] if cls in REAL_LIKE else [int(v) for v in case["decn"]]
    if out["shape"] != [nc, npar]: bad.append("xconfig shape %r != (%d,%d)" % (out["shape"], nc, npar))
    if not out["dtype"].startswith("int"): bad.append("xconfig dtype %s is not integer" % out["dtype"])
    if out["ncross"] != nc or out["nparent"] != npar: bad.append("ncross/nparent not stored as requested")
    for key in ("nmating", "nprogeny"):
        want = case[key] if isinstance(case[key], list) else [case[key]] * nc
        if out[key] != want: bad.append("%s stored as %r, requested %r" % (key, out[key], want))
    if not out["pgmat_same"]: bad.append("pgmat is not the candidate population handed in")
    if not out["decn_same"] or not out["decn_same2"]: bad.append("xconfig_decn is not the chosen decision (replaced or modified)")
    if not out["rng_same"]: bad.append("the configuration does not keep the generator it was given")
    if cls in CROSS_BASED and not out.get("xmap_same", True): bad.append("cross map replaced or modified")
    al = out.get("alias")
    if al:
        if al["shares"]: bad.append("the sampled xconfig shares memory with the decision vector / the cross map")
        if not al["decn_intact"]: bad.append("overwriting the sampled xconfig in place changed the decision vector")
        if not al["xmap_intact"]: bad.append("overwriting the sampled xconfig in place changed the cross map")
        if not al["first_intact"]: bad.append("overwriting the second sample in place changed the matrix returned by the first")
    for which, xc in (("", out["xconfig"]), ("second sample: ", out["second"]["xconfig"])):
        for b in _valid_cfg(cls, nc, npar, decn, xc, case.get("xmap")): bad.append(which + b)
    sec = out["second"]
    if case["ret2"]:
        if sec["ret_none"] or not sec["ret_is_xconfig"]: bad.append("sample_xconfig(return_xconfig=True) did not return the stored xconfig")
    elif not sec["ret_none"]: bad.append("sample_xconfig(return_xconfig=False) returned a value")
    for which, d in (("", out["draws"]), ("second sample: ", sec["draws"])):
        if not d: bad.append(which + "no draw was requested from the configuration's own generator")
    return bad

def _pred_xmap(case, out):
    n, k = case["n"], case["k"]
    fn = case["fn"]
    uniq = (fn == "triudix") or (fn == "xmapix" and case["unique"])
    if k == 0:
        return []                                      # zero parents per cross: outside the documented domain
    if "raised" in out: return ["%s(%d,%d) raised %s: %s" % (fn, n, k, out["raised"], out["msg"])]
    want = [list(c) for c in (itertools.combinations(range(n), k) if uniq else itertools.combinations_with_replacement(range(n), k))]
    if out["out"] != want:
        return ["%s(%d,%d%s) does not enumerate the %s %d-tuples below %d in lexicographic order (got %d tuples, expected %d)"
                % (fn, n, k, (",%r" % case["unique"]) if fn == "xmapix" else "", "strictly increasing" if uniq else "non-decreasing", k, n, len(out["out"]), len(want))]
    return []

def _pred_life(case, out):
    bad = []
    cls = case["cls"]; cross = cls in CROSS_BASED
    if "raised" in out:
        return ["%s raised %s at step %d of a valid lifecycle: %s" % (CFG_CLASS[cls], out["raised"], out["at"], out["msg"])]
    for i, ((nc, npar, decn, xmap), rec) in enumerate(zip(_life_states(case), out["steps"])):
        op = rec["op"]; tag = "step %d (%s): " % (i, op)
        if op in ("init", "sample"):
            d = [_fh(h) for h in decn] if cls in REAL_LIKE else [int(v) for v in decn]
            now = [_fh(h) for h in rec["decn_now"]] if cls in REAL_LIKE else rec["decn_now"]
            if now != d: bad.append(tag + "the configuration's decision vector is %r, the state set by the caller is %r" % (now[:8], d[:8]))
            if cross and rec["xmap_now"] != xmap: bad.append(tag + "the configuration's cross map is not the one set by the caller")
            if (rec["ncross"], rec["nparent"]) != (nc, npar): bad.append(tag + "ncross/nparent are (%d,%d), set to (%d,%d)" % (rec["ncross"], rec["nparent"], nc, npar))
            if rec["shape"] != [nc, npar]: bad.append(tag + "xconfig shape %r != (%d,%d)" % (rec["shape"], nc, npar)); continue
            if not rec["dtype"].startswith("int"): bad.append(tag + "xconfig dtype %s is not integer" % rec["dtype"])
            for b in _valid_cfg(cls, nc, npar, d, rec["xconfig"], xmap): bad.append(tag + b)
            if not rec["draws"]: bad.append(tag + "no draw was requested from the configuration's generator")
            if op == "sample" and not rec["ret_is_xconfig"]: bad.append(tag + "sample_xconfig(return_xconfig=True) did not return the stored xconfig")
            if rec.get("orig_intact") is False: bad.append(tag + "sampling the copy changed the xconfig of the object it was copied from")
        else:
            if rec.get("stale_draws"): bad.append(tag + "%d draws were requested by a setter / a copy" % rec["stale_draws"])
            if op == "copy" and not (rec["rng_shared"] and rec["decn_shared"] and rec["pgmat_shared"]): bad.append(tag + "copy.copy does not share generator / decision vector / population with the original")
            if op == "deepcopy":
                if rec["decn_shared"]: bad.append(tag + "copy.deepcopy shares the decision vector with the original")
                if not rec["xconfig_equal"] or not rec["class_same"]: bad.append(tag + "copy.deepcopy does not carry an equal, separate xconfig")
            if op == "set_rng" and not rec["rng_is_new"]: bad.append(tag + "the rng setter did not install the generator")
    if any(out.get("retired_used", [])): bad.append("a generator that had been replaced through the rng setter was still consulted")
    return bad

def pred(case, out):
    """the property, stated directly on the implementation's outputs (independent of the Coq model)"""
    if "exc" in out: return ["harness driver raised %s: %s" % (out["exc"], out["msg"])]
    bad = {"cfg": _pred_cfg, "xmap": _pred_xmap, "select": _pred_select, "life": _pred_life, "audit": _pred_audit}[case["kind"]](case, out)
    seen = []
    for b in bad:
        if b not in seen: seen.append(b)
    return seen[:8]

ADDITIVE = ("ebv", "gebv", "random", "ohv", "uc")

def _pred_select(case, out):
    bad = _pred_select1(case, out)
    if "session" in out and "raised" not in out:
        for i, ((cur, st), o) in enumerate(zip(_session_cases(case), out["session"])):
            c2 = dict(cur)
            if "perm" in st: c2["bv"] = [cur["bv"][j] for j in st["perm"]]
            what = "set %r" % st["set"] if "set" in st else ("breeding values overwritten in place" if "bv" in st else "relabelled population")
            for b in _pred_select1(c2, o): bad.append("select() #%d on the same protocol (%s): %s" % (i + 2, what, b))
    return bad

def _want_xmap(case):
    npar = case["nparent"]
    return [list(c) for c in (itertools.combinations(range(case["ntaxa"]), npar) if case.get("unique", True)
                              else itertools.combinations_with_replacement(range(case["ntaxa"]), npar))]

def _pred_space(case, sp, what=""):
    """clause (a): the decision space the protocol hands to the optimiser covers exactly the candidates - every row of the
    problem's cross map for the protocols over candidate crosses (subset encoding: the admissible members are 0..len(map)-1 and
    every position may take every row; vector encodings: one bounded variable per row), every individual otherwise.  Stated on
    the recorded problem; the expected map is enumerated here with itertools (independent of the model and of the library)"""
    enc = case["enc"]; fam = case["family"]; nc, npar = case["ncross"], case["nparent"]
    if sp is None: return [what + "no problem was handed to the optimiser"]
    bad = []
    cross = enc in CROSS_BASED
    if cross:
        want = _want_xmap(case); nunit = len(want); unit = "rows of the problem's cross map"
        if sp.get("xmap") != want:
            bad.append(what + "the problem's cross map (%s rows) is not the lexicographic list of the %d %s %d-tuples of the %d candidates"
                       % (sp.get("nxmap"), nunit, "strictly increasing" if case.get("unique", True) else "non-decreasing", npar, case["ntaxa"]))
        if sp.get("nxmap") is not None: nunit = sp["nxmap"]             # judged against the problem's OWN map
    else: nunit = case["ntaxa"]; unit = "candidates of the population"
    if enc in ("subset", "mate"):
        k = {"subset": npar if fam == "random" else nc * npar, "mate": nc}[enc]
        if sp["space"] != list(range(nunit)):
            miss = [d for d in range(nunit) if d not in sp["space"]]; extra = [d for d in sp["space"] if not (isinstance(d, int) and 0 <= d < nunit)]
            bad.append(what + "the decision space has %d members, the %s are %d: %s can never be chosen%s"
                       % (len(sp["space"]), unit, nunit, ("rows %r" % miss[:8]) if cross else ("candidates %r" % miss[:8]), (", %r do not exist" % extra[:8]) if extra else ""))
        if sp["ndecn"] != k: bad.append(what + "the problem has %d decision variables, the cross design needs %d" % (sp["ndecn"], k))
        if cross and (sp["lower"] != [0] * k or sp["upper"] != [nunit - 1] * k):
            bad.append(what + "bounds of the decision variables are %r / %r, expected %d times 0 / %d (the last row of the map)" % (sp["lower"][:6], sp["upper"][:6], k, nunit - 1))
    else:
        if sp["ndecn"] != nunit or len(sp["lower"]) != nunit or len(sp["upper"]) != nunit:
            bad.append(what + "the problem has %d decision variables with %d / %d bounds, the %s are %d (one variable per %s)"
                       % (sp["ndecn"], len(sp["lower"]), len(sp["upper"]), unit, nunit, "row" if cross else "candidate"))
        if sp["space"] != [sp["lower"], sp["upper"]]: bad.append(what + "the decision space is not the stacked lower / upper bounds")
        if cross:
            if any(v != 0 for v in sp["lower"]): bad.append(what + "lower bound of the decision space %r is not 0 everywhere" % sp["lower"][:8])
            if enc in ("bmate", "rmate") and any(v != 1 for v in sp["upper"]): bad.append(what + "upper bound of the decision space %r is not 1 everywhere" % sp["upper"][:8])
            if enc == "imate" and any(not isinstance(v, int) or v < 1 for v in sp["upper"]): bad.append(what + "upper bound of the decision space %r excludes using a candidate cross once" % sp["upper"][:8])
    return bad

def _pred_mo_choice(case, out):
    """multi-objective clause, judged on the front the optimiser RETURNED (the stub's own record, present with and without miscout)
    and on the preference the case DECLARED (weight, transformation and its keyword arguments - not the protocol's attributes):
    the configuration's decision is the row of the first maximiser of ndset_wt * ndset_trans(soln_obj, **ndset_trans_kwargs)"""
    sd, so = out.get("stub_decn"), out.get("stub_obj")
    if sd is None or so is None: return ["the multi-objective optimiser was not consulted by select()"]
    bad = []
    if out.get("soln_decn") is not None and (out["soln_decn"] != sd or out.get("soln_obj") != so):
        bad.append("miscout['mosoln'] (%d points) is not the solution the multi-objective optimiser returned (%d points)" % (len(out["soln_decn"]), len(sd)))
    objs = [[_fh(h) for h in r] for r in so]
    wt = 1.0 if case.get("ndset_wt") is None else float(case["ndset_wt"])
    ref = wt * numpy.asarray(_ref_trans(case, objs), dtype=float)
    if len(ref) != len(sd) or not numpy.all(numpy.isfinite(ref)): return bad          # (ASSUMPTIONS: finite scores)
    if "tvals" in out:
        tv = numpy.array([_fh(h) for h in out["tvals"]])
        r0 = numpy.asarray(_ref_trans(case, [[_fh(h) for h in r] for r in out["soln_obj"]]), dtype=float)
        if len(tv) != len(r0) or not numpy.allclose(tv, r0, rtol=1e-12, atol=0.0, equal_nan=True):
            bad.append("the protocol's ndset_trans / ndset_trans_kwargs do not compute the declared transformation (%s %r)" % _mo_decl(case))
    ix = int(numpy.argmax(ref))
    got = [i for i, d in enumerate(sd) if d == out["decn"]]
    if ix in got: return bad
    kind, kw = _mo_decl(case)
    what = "ndset_wt=%r, ndset_trans=%s, ndset_trans_kwargs=%r" % (wt, kind, kw)
    if not got:
        return bad + ["the configuration's decision %r is no row of the front the optimiser returned (%s)" % (out["decn"][:8], what)]
    keys = _exact_keys(case, objs); c = got[0]
    tol = F(1, 10 ** 9) * (1 + max(abs(k) for k in keys))
    if ref[c] == ref[ix]:
        bad.append("configuration built from front row %d, a maximiser of ndset_wt * ndset_trans(soln_obj, **kwargs) but not the FIRST one (row %d, score %r; %s)" % (c, ix, float(ref[ix]), what))
    elif abs(keys[c] - keys[ix]) > tol or keys[c] == keys[ix]:
        bad.append("configuration built from front row %d (score %r), but ndset_wt * ndset_trans(soln_obj, **kwargs) is maximal at row %d (score %r) of the %d-point front; %s"
                   % (c, float(ref[c]), ix, float(ref[ix]), len(sd), what))
    return bad                                                        # (else: the two rows differ by rounding only)

def _pred_select1(case, out):
    bad = []
    enc = case["enc"]; nc, npar = case["ncross"], case["nparent"]; fam = case["family"]
    inv = None                                                         # cross-design parameters no configuration can carry
    for key in ("nmating", "nprogeny"):
        v = case[key]
        if (v <= 0) if isinstance(v, int) else (len(v) != nc or any(x <= 0 for x in v)): inv = inv or key
    k_need = {"subset": npar if fam == "random" else nc * npar, "mate": nc}.get(enc)
    nspace = None
    if enc == "subset": nspace = case["ntaxa"]
    if enc == "mate":
        nspace = len(list(itertools.combinations(range(case["ntaxa"]), npar) if case.get("unique", True) else itertools.combinations_with_replacement(range(case["ntaxa"]), npar)))
    if "raised" in out and inv is not None:
        # an impossible cross design must be refused when the protocol is built, not after the optimisation has run
        if out.get("stage") == "construct": return []
        return ["the protocol accepted %s=%r at construction; select() ran the optimisation and then raised %s: %s"
                % (inv, case[inv], out["raised"], out["msg"][:120])]
    if "raised" in out:
        if k_need is not None and nspace is not None and k_need > nspace: return []      # more members requested than candidates exist
        return ["%s %s select() raised %s: %s" % (fam, enc, out["raised"], out["msg"][:160])]
    if inv is not None: bad.append("invalid request (%s=%r) was accepted" % (inv, case[inv]))
    if k_need is not None and nspace is not None and k_need > nspace:
        bad.append("a subset of %d members was selected from %d candidates" % (k_need, nspace))
    real = enc in REAL_LIKE
    decn = [_fh(h) for h in out["decn"]] if real else [int(v) for v in out["decn"]]
    if out["shape"] != [nc, npar]: bad.append("xconfig shape %r != (%d,%d)" % (out["shape"], nc, npar))
    if not out["dtype"].startswith("int"): bad.append("xconfig dtype %s is not integer" % out["dtype"])
    if out["ncross"] != nc or out["nparent"] != npar: bad.append("configuration does not carry the protocol's ncross/nparent")
    for key in ("nmating", "nprogeny"):
        want = case[key] if isinstance(case[key], list) else [case[key]] * nc
        if out[key] != want: bad.append("%s of the configuration is %r, the protocol was built with %r" % (key, out[key], want))
    if not out["pgmat_same"]: bad.append("configuration's pgmat is not the candidate population handed to select()")
    want_cls = CFG_CLASS[enc]
    if out["cfg_class"] != want_cls: bad.append("configuration class %s, expected %s" % (out["cfg_class"], want_cls))
    if not out["draws"]: bad.append("the configuration was sampled without consulting the (global) generator")
    # --- the solution and the choice among solutions
    key = "sosoln" if case["nobj"] == 1 else "mosoln"
    if case.get("miscout", True):
        if out.get("misc_keys") != [key]: bad.append("miscout holds %r, expected [%r]" % (out.get("misc_keys"), key))
        soln = out.get("soln_decn")
        if soln is not None:
            if case["nobj"] == 1:
                if len(soln) != 1 or soln[0] != out["decn"]: bad.append("xconfig_decn %r is not the optimiser's solution %r" % (out["decn"], soln[:1]))
            else:
                tv = [_fh(h) for h in out["tvals"]]
                if not any(math.isnan(v) for v in tv):
                    wt = F(_fh(out["ndset_wt"])); sc = [wt * F(v) for v in tv]
                    ix = sc.index(max(sc))
                    if soln[ix] != out["decn"]:
                        got = [i for i, d in enumerate(soln) if d == out["decn"]]
                        bad.append("configuration built from front point %r (score %s), but ndset_wt * transformation is maximal at point %d (score %s)"
                                   % (got, [float(sc[i]) for i in got], ix, float(sc[ix])))
                want_wt = 1.0 if case.get("ndset_wt") is None else case["ndset_wt"]
                if _fh(out["ndset_wt"]) != want_wt: bad.append("ndset_wt %r differs from the declared %r" % (_fh(out["ndset_wt"]), want_wt))
            if enc in CROSS_BASED and not out.get("soln_xmap_same", True): bad.append("configuration's cross map differs from the solution's")
    if case["nobj"] > 1: bad += _pred_mo_choice(case, out)
    # --- clause (a): the decision space handed to the optimiser
    bad += _pred_space(case, out.get("space"))
    for tag in ("relabel", "tail"):
        if out.get(tag) and "raised" not in out[tag]:
            pi = case["relabel"] if tag == "relabel" else out[tag]["perm"]            # (a relabelling may list fewer candidates: a sub-population)
            bad += _pred_space(dict(case, ntaxa=len(pi)), out[tag].get("space"), "%s run: " % ("relabelled" if tag == "relabel" else "tail-relabelled"))
    # --- configuration clauses relative to the chosen decision
    xmap = out.get("xmap")
    if enc in CROSS_BASED:
        uniq = case.get("unique", True)
        want = [list(c) for c in (itertools.combinations(range(case["ntaxa"]), npar) if uniq else itertools.combinations_with_replacement(range(case["ntaxa"]), npar))]
        if xmap != want: bad.append("cross map is not the lexicographic list of %s %d-tuples of candidates" % ("strictly increasing" if uniq else "non-decreasing", npar))
        if enc == "mate" and any(not (0 <= d < len(xmap)) for d in decn): bad.append("decision refers to a cross outside the map"); return bad
        if enc in ("imate", "bmate", "rmate") and len(decn) != len(xmap): bad.append("decision vector does not have one entry per candidate cross"); return bad
    if enc == "imate":
        # the decision space: one [lower, upper] pair per candidate cross; for the usefulness criterion the lower bound is 0 and the
        # upper bound admits every allocation of the design's matings (a fortiori of its ncross crosses) to the candidate crosses
        b = out.get("bounds")
        if b is None: bad.append("the optimiser was not handed the bounds of the decision space")
        elif len(b[0]) != len(xmap) or len(b[1]) != len(xmap):
            bad.append("decision space bounds have %d / %d entries, the cross map has %d candidate crosses" % (len(b[0]), len(b[1]), len(xmap)))
        elif fam == "uc":
            tot = sum(case["nmating"]) if isinstance(case["nmating"], list) else case["nmating"] * nc
            if any(v != 0 for v in b[0]): bad.append("lower bound of the decision space %r is not 0 everywhere" % b[0])
            if any(not isinstance(v, int) or v < max(tot, nc) for v in b[1]):
                bad.append("upper bound of the decision space %r excludes an allocation of the design's %d matings (%d crosses) to one candidate cross" % (b[1], tot, nc))
            elif any(not (lo <= d <= up) for lo, d, up in zip(b[0], decn, b[1])): bad.append("chosen decision %r lies outside the decision space %r" % (decn, b))
    if enc in ("real", "integer", "binary") and len(decn) != case["ntaxa"]:
        bad.append("decision vector has %d entries, the candidate population has %d individuals" % (len(decn), case["ntaxa"])); return bad
    if enc in ("integer", "binary", "imate", "bmate") and (any(v < 0 for v in decn) or sum(decn) <= 0): return bad + ["degenerate integer decision %r" % decn]
    if enc in ("binary", "bmate") and any(v not in (0, 1) for v in decn): return bad + ["binary decision %r has an entry other than 0 and 1" % decn]
    if real and (any(v < 0 for v in decn) or sum(decn) <= 0): return bad + ["degenerate contribution vector"]
    if enc in ("subset", "mate") and len(set(decn)) != len(decn) and case["algo"] != "hc": bad.append("chosen solution %r repeats a member" % decn)
    if enc == "subset" and any(not (0 <= d < case["ntaxa"]) for d in decn): bad.append("chosen solution refers to a non-candidate")
    bad += _valid_cfg(enc, nc, npar, decn, out["xconfig"], xmap)
    # --- truncation: exactly the best candidates by the protocol's criterion
    exact_algo = case["algo"] in ("sorting", "sortinghc") or (case["algo"] == "stub" and fam in ("ebv", "random"))
    if case["nobj"] == 1 and enc in ("subset", "mate") and "crit" in out and fam in ADDITIVE and exact_algo:
        crit = [F(_fh(h)) for h in out["crit"]]; k = out["ndecn"]
        if k != k_need: bad.append("the problem asks for %d members, the cross design needs %d" % (k, k_need))
        chosen = sorted(crit[d] for d in decn)
        if chosen != sorted(crit)[:len(decn)] or len(decn) != k:
            bad.append("chosen members %r (criteria %r) are not the %d best candidates (criteria %r)" % (decn, [float(c) for c in chosen], k, [float(c) for c in sorted(crit)[:k]]))
        if fam == "ebv":
            wt = 1.0 if case.get("obj_wt") is None else case["obj_wt"]
            b8 = lambda i, t: F(case["bv"][i][t], 8) * F(2) ** case.get("bvexp", 0)
            val = lambda i, t: (b8(i, t) * F(case.get("scale", [1.0] * case["ntrait"])[t]) + F(case.get("loc", [0.0] * case["ntrait"])[t])) if case.get("unscale", True) else b8(i, t)
            want = [F(wt) * -sum(val(i, t) for t in range(case["ntrait"])) for i in range(case["ntaxa"])]
            if crit != want: bad.append("the protocol's per-candidate criterion is not the weighted negated breeding value")
        # relabelling the candidates permutes the choice; in the relabelled population the choice is again the k best of the whole
        # map / population ("tail": the relabelling that moves the best crosses to the highest-index taxa, i.e. to the tail of the map)
        for tag, rl, pi in (("relabelled", out.get("relabel"), case.get("relabel")), ("tail-relabelled", out.get("tail"), (out.get("tail") or {}).get("perm"))):
            if rl and "raised" in rl: bad.append("select() on the %s population raised %s: %s" % (tag, rl["raised"], rl.get("msg", "")[:120]))
            elif rl and fam != "random":
                crit2 = [F(_fh(h)) for h in rl["crit"]]
                close = lambda a, b: abs(a - b) <= F(1, 10 ** 9) * (1 + abs(b))
                sc = sorted(crit)
                distinct = all(not close(sc[i], sc[i + 1]) for i in range(len(sc) - 1))
                if len(crit2) != len(crit): bad.append("%s run: %d criterion values, original run %d" % (tag, len(crit2), len(crit))); continue
                if any(not (0 <= d < len(crit2)) for d in rl["decn"]): bad.append("%s run: decision %r refers to a row / candidate that does not exist" % (tag, rl["decn"])); continue
                ch2 = sorted(crit2[d] for d in rl["decn"])
                if ch2 != sorted(crit2)[:len(rl["decn"])] or len(rl["decn"]) != k:
                    bad.append("%s run (new candidate i = old candidate %r[i]): chosen members %r (criteria %r) are not the %d best of all %d (criteria %r)"
                               % (tag, pi, rl["decn"], [float(c) for c in ch2], k, len(crit2), [float(c) for c in sorted(crit2)[:k]]))
                if enc == "subset":
                    if not all(close(a, crit[pi[i]]) for i, a in enumerate(crit2)): bad.append("criterion of the %s population is not the relabelled criterion" % tag)
                    if distinct:
                        if sorted(pi[d] for d in rl["decn"]) != sorted(decn): bad.append("%s run chose %r = original candidates %r, original run chose %r" % (tag, rl["decn"], sorted(pi[d] for d in rl["decn"]), sorted(decn)))
                    elif not all(close(a, b) for a, b in zip(ch2, chosen)): bad.append("%s run chose other criterion values" % tag)
                else:
                    # cross d2 of the relabelled map consists of original candidates pi[.]
                    orig = lambda d2: tuple(sorted(pi[p] for p in rl["xmap"][d2]))
                    mine = sorted(tuple(sorted(xmap[d])) for d in decn)
                    cmap = {tuple(sorted(r)): crit[i] for i, r in enumerate(xmap)}
                    if any(orig(d2) not in cmap for d2 in range(len(rl["xmap"]))) or len(rl["xmap"]) != len(xmap):
                        bad.append("cross map of the %s population is not the relabelled cross map" % tag); continue
                    if not all(close(crit2[d2], cmap[orig(d2)]) for d2 in range(len(crit2))): bad.append("criterion of the %s population is not the relabelled criterion" % tag)
                    vals2 = sorted(cmap[orig(d2)] for d2 in rl["decn"])
                    if not all(close(a, b) for a, b in zip(vals2, chosen)): bad.append("%s run chose crosses with other criterion values" % tag)
                    if distinct:
                        if sorted(orig(d2) for d2 in rl["decn"]) != mine: bad.append("%s run chose crosses %r, original run %r" % (tag, sorted(orig(d2) for d2 in rl["decn"]), mine))
    rl0 = out.get("relabel")
    if rl0 and rl0.get("xconfig") and enc not in CROSS_BASED:
        lo = _local_opt(rl0["xconfig"])
        if lo: bad.append("relabelled run: " + lo)
    if out.get("post_draws"): bad.append("draws after select() returned")
    return bad

# ================================================================== findings, evidence
def classify(case, out, clauses):
    """no open finding: C07-integer-share, C07-integer-mate-share, C07-zero-mating-late, C07-mating-shape-late and
    C07-uc-integer-bounds-shape are repaired (status fixed: their witnesses are re-run on every check and must pass); nothing is excused"""
    return None

def nontrivial(case, out):
    if case["kind"] == "audit": return False
    if case["kind"] == "life":
        return "raised" not in out and any(st["op"] != "sample" for st in case["steps"]) and len(set(map(str, case["decn"]))) >= 2
    if case["kind"] == "cfg":
        if "raised" in out: return False
        d = case["decn"]
        return len(set(d)) >= 2 and case["ncross"] * case["nparent"] >= 2
    if case["kind"] == "xmap": return case["n"] >= 3 and case["k"] >= 2
    if case["kind"] == "select":
        if "raised" in out: return False
        return len(set(map(tuple, case["bv"]))) >= 2 and case["ncross"] * case["nparent"] >= 2 and case["ntaxa"] > len(set(_flat(out["xconfig"])))
    return False

def describe(case, out):
    d = {"kind": case["kind"], "raised": out.get("raised", out.get("exc", "no"))}
    if case["kind"] == "cfg":
        t = case["ncross"] * case["nparent"]
        d.update({"cls": case["cls"], "nparent": case["nparent"], "ncross": min(case["ncross"], 4), "dtype": case["dtype"], "draws": case["draw"]["mode"],
                  "grid": case.get("grid", "-"), "large": bool(case.get("large")), "wkind": str(case.get("wkind", "-")).split("*")[-1] if "*" in str(case.get("wkind", "")) else "1",
                  "selfpaired_final": "n/a" if ("raised" in out or case["cls"] in CROSS_BASED) else str(min(_score(out["xconfig"]), 3))})
    elif case["kind"] == "life":
        d.update({"cls": case["cls"], "ops": ",".join(sorted(set(st["op"] for st in case["steps"])))})
    elif case["kind"] == "select":
        d.update({"family": case["family"], "enc": case["enc"], "nobj": case["nobj"], "algo": case["algo"], "relabel": bool(case.get("relabel")),
                  "session": ",".join(sorted(k for st in case.get("session", []) for k in st)) or "-", "bvexp": case.get("bvexp", 0),
                  "ndset": case.get("ndset", "n/a"), "ties": len(set(map(tuple, case["bv"]))) < len(case["bv"]),
                  "ndset_wt": "n/a" if case["nobj"] == 1 else ("unit" if case.get("ndset_wt") in (None, 1.0) else ("neg" if case["ndset_wt"] < 0 else "pos")),
                  "front": "n/a" if not out.get("stub_obj") else ("1" if len(out["stub_obj"]) == 1 else ("2-3" if len(out["stub_obj"]) <= 3 else "4+")),
                  "mogrid": bool(case.get("mogrid"))})
    elif case["kind"] == "xmap":
        d.update({"fn": case["fn"], "k": case["k"], "n": "0" if case["n"] == 0 else ("1-3" if case["n"] <= 3 else "4-7")})
    return d


def translate(repo, gen_dir):
    """regenerate Gen/C07_Kernel.v (kernel expressions of the six sample_xconfig methods, the protocol / configuration setters, the
    six select() methods, triudix / triuix / xmapix and the sorting optimiser) from the current source; fail closed"""
    from translate import c07_kernel
    return [c07_kernel.translate(repo, gen_dir)]
