"""C18 — haplotype blocks: correspondence between Model/C18_Haplo.v and pybrops.core.util.haplo
(nhaploblk_chrom, haplobin, haplobin_bounds, haplomat), the _calc_haplomat copies, _calc_xmap, _calc_ohvmat and
latentfn of the OHV / OPV / genotype-builder problems (OHV problems built through the selection protocols),
plus the independent predicate."""
import math, itertools
from fractions import Fraction
import numpy
import coqemit as E

ID = "C18"
PROPS = "Props/C18.v"
IMPORTS = "From Coq Require Import PrimFloat.\nFrom PV Require Import Lib.Common Model.C18_Haplo."
SHARD = 40
LEVEL_TEXT = ("Coq theorems over an executable model of the haplotype-block code that is generic in the number type of the genetic "
              "positions (instances: binary64 as executed, bit exact incl. numpy.linspace's operation order; exact rationals): "
              "greedy apportionment = one count per chromosome, each >= 1, summing to the requested total (all inputs, all number types); "
              "on sorted chromosomes tiling the marker array every marker gets exactly one label inside its chromosome's label range, "
              "labels are non-decreasing and, when no chromosome has fewer markers than blocks, every requested label is used — proved for "
              "any total preorder and any boundary list with proper end points, discharged unconditionally for Q and, via Flocq, for "
              "binary64 under a decidable hypothesis that every shard evaluates; the clauses 'exactly the requested total' and 'finite for "
              "every valid input' hold at FULL strength for every number type (whenever every marker is labelled the labels are exactly "
              "0..nhaploblk-1 and haplobin_bounds yields exactly nhaploblk runs; whenever haplomat/_calc_haplomat succeeds every entry is "
              "written and block values add up to the copy's additive value; the call does succeed on every valid input over Q and, under "
              "the decidable hypothesis, in binary64) — this rests on the repair pass of haplobin (defect C18-empty-bin, repaired), which is "
              "also proved to return exactly the former equal-width labels whenever no equal-width bin is empty; the FORMER code is kept in "
              "Coq as a regression witness (old_* refuted theorems); haplobin_bounds is a run-length encoding (partition into non-empty "
              "runs, decode = labels, adjacent runs differ); block values over any partition add up to the copy's additive value; OHV/OPV = "
              "ploidy * sum over blocks of the best designated copy (upper bound, attained), >= every block-boundary recombinant, for every "
              "cross of the (proved valid) cross map of every problem that is built. The model is evaluated inside Coq (vm_compute) against "
              "the implementation's outputs on generated layouts. "
              "PHASE 2: the kernel expressions of the current source (guards, index expressions, operation order of the ideal counts, argmin, "
              "linspace arguments, closed bin test, repair-pass bound, run test, slices of the block value, shape, cross-map branches, ploidy "
              "scaling, the six latent functions; all four copies of the haplotype-matrix builder) are regenerated on every run into "
              "Gen/C18_Kernel.v; the code composed from them (g_*) is proved equal to the hand model and the apportionment, cover-once/"
              "monotone, run-length, conservation (four builders) and OHV-problem theorems are restated about the generated code itself, so a "
              "changed expression breaks Props/C18.vo independently of the sampled cases. "
              "Every designated parent counts: the OHV over a parent tuple is defined, at least the OHV over any tuple drawn from the same "
              "individuals (in particular its first and last parent only), equal for tuples designating the same set, and strictly larger in a "
              "population whose middle parent alone holds the best block (Proofs/C18_Parents.v).")
LEVEL_NOTE = ("trusted: Coq kernel + vm_compute, PrimFloat primitives + FloatAxioms specs, classical reals via Flocq (binary64 order only); "
              "numpy.empty is instrumented by the driver to return NaN/-1 filled arrays so that never-written entries are observable (modelled "
              "as None); block values, OHV/OPV sums are compared as exact rationals on dyadic grids (BLAS/numpy summation order not modelled); "
              "real/integer/binary OHV latentfn and the genotype-builder latentfn within 2^-30 of the exact rational; finiteness of the binary64 "
              "linspace boundaries is checked per case, not proved in general; theorems are about the Gallina model and about the code composed "
              "from the regenerated kernel expressions; the tie of loops/data flow to the code is differential on generated inputs, the tie of the "
              "kernel expressions is by regeneration (translator harness/translate/c18_kernel.py in the trusted base; statements the model "
              "abstracts — chunking of _calc_ohvmat, order of loop bodies, allocation — are pinned textually and fail closed)")
TECHNIQUE = "Coq proof over an executable model (generic order; PrimFloat/Flocq and Q instances); in-Coq vm_compute correspondence"
RULE = ("case = (kind helpers|haplomat|ohv{Subset,Real,Integer,Binary via the selection protocols}|opv|gb, marker layout = chromosome "
        "lengths + genetic positions, requested block total, genotypes, effects, parent tuples / selections, chunk size); layouts from one "
        "PRNG: per chromosome one of even grid (markers exactly on bin boundaries), random grid with duplicates, cluster + far marker (empty "
        "equal-width bin: the repair pass of haplobin moves markers), all-equal/duplicated positions, single marker, off-grid floats (j/7, j/3, random) where linspace rounding decides; "
        "1-4 chromosomes, totals from #chr to #markers plus totals below #chr and above #markers, explicit per-chromosome counts, a few "
        "unsorted layouts; positions scaled by 2^-40..2^20 (whole genome) and 2^-12..2^12 (single chromosomes), gaps of 2^-30..2^-45 next to "
        "exact ties, effects scaled by 2^-40..2^20, 1-4 phases; the genotype matrix object obtained by constructor, copy, deepcopy, mat setter, "
        "shuffled variants + group_vrnt, select_taxa; OHV sessions: the same protocol object / matrix / model reused after nhaploblk, "
        "unique_parents, nparent setters and in-place updates of genotypes, positions, effects (second problem = fresh construction); "
        "problems: latentfn twice, on copy/deepcopy, after the matrix setter, stored matrix and inputs unchanged, result detached from later "
        "in-place input changes; _calc_ohvmat with its own ploidy argument; fixed cases: one block more than markers in every builder, 280 "
        "and 140 blocks (labels beyond int8/uint8), 1081 crosses (> the factory's chunk of 1024); the entry-point table ENTRY/SKIPPED/PARAMS is "
        "compared with the modules by introspection on every run (fail closed); "
        "PLANTED populations, systematically over nparent 1..4 x unique_parents both ways x the four OHV encodings (and selections of 1..4 "
        "individuals, rotated / reversed / with a repeated member, for OPV and the genotype builder with 1..4 founders): all copies share a base "
        "haplotype and each individual alone carries the favourable allele of one marker of 'its' block, so the first, every MIDDLE and the last "
        "parent each alone hold the best block somewhere; _calc_ohvmat on the same matrix with chunk sizes None,1,2,3,5,7,1024; the predicate "
        "enumerates ALL doubled haploids assembled block by block from the phases of the designated parents (from genotypes and effects alone) "
        "on small cases: none exceeds the OHV / -OPV and one attains it; random OHV cases also draw nparent from 1..4; "
        "non-trivial = >= 3 markers, >= 2 blocks requested, >= 2 labels used; distinct by SHA-256 of the case")
TRUSTED = ["numpy.empty instrumented (driver only) so that unwritten entries are visible as NaN / -1",
           "binary64 sums of 0/1 genotypes times effects k/2^8 (|k/2^8| <= 16) are exact: compared as exact rationals",
           "numpy.linspace = arange(0,num)*((stop-start)/div)+start with the last point replaced by stop (numpy 2.x function_base.linspace)",
           "numpy add.reduce over fewer than 8 contiguous float64 is a left-to-right loop",
           "latentfn of the real/integer/binary OHV problems and of the genotype builder are compared within 2^-30 of the exact rational",
           "harness/translate/c18_kernel.py (ast -> Gallina for the kernel expressions; sorts O = abstract positions, N = counts/indices, Z, Q; "
           "glue: zmax3, linspace_num, triudix/triuix = the model's xmap_from)",
           "scaling by a power of two commutes with every binary64 operation of the code (no overflow/underflow in the generated ranges)"]
ASSUMPTIONS = ["genetic positions sorted within chromosomes, chromosome groups tile 0..p (as group_vrnt() produces)",
               "alleles in {0,1} (int8), effects finite", "fewer than 8 chromosomes when positions are off the dyadic grid"]

ERRMAP = {"ValueError": "EValue", "RuntimeError": "EOther", "IndexError": "EIndex", "TypeError": "EType"}
FMT_BUG = True   # nhaploblk_chrom: "... (nchr = {1})".format(nchr) raises IndexError instead of the intended ValueError

# ------------------------------------------------------------------ generators
def _chrom_positions(rng, ln, style):
    """positions of one chromosome (sorted list of floats) in the given style"""
    if ln == 1 or style == "single":
        return [rng.choice([0.0, 0.5, -1.25, 3.0])] * ln if ln == 1 else None
    off = rng.choice([0, 0, 0, 1, -3, 5, -1]) * rng.choice([1.0, 0.5, 0.25])
    if style == "even":
        w = rng.choice([1, 2, 3, 4, 6, 8, 12]) * rng.choice([1.0, 0.5, 0.125, 1 / 64])
        return [off + j * w for j in range(ln)]
    if style == "grid":
        L = rng.choice([4, 6, 8, 12, 16, 24, 60])
        sc = rng.choice([1.0, 0.25, 1 / 64])
        xs = sorted(rng.randint(0, L) for _ in range(ln))
        if rng.random() < 0.5: xs[0], xs[-1] = 0, L
        return [off + x * sc for x in sorted(xs)]
    if style == "cluster":
        far = rng.choice([1.0, 2.0, 64.0])
        xs = sorted(rng.randint(0, 3) / 64 for _ in range(ln - 1)) + [far]
        if rng.random() < 0.3: xs = [0.0] + [far - rng.randint(0, 3) / 64 for _ in range(ln - 1)]
        return [off + x for x in sorted(xs)]
    if style == "dup":
        v = off + rng.randint(0, 8) / 8
        xs = [v] * ln
        if rng.random() < 0.6:                                     # two or three distinct values
            for j in range(rng.randint(1, ln - 1), ln): xs[j] = v + 1.0
            if ln > 2 and rng.random() < 0.5: xs[-1] = v + 2.0
        return xs
    if style == "frac":                                            # off the dyadic grid: linspace rounding decides
        d = rng.choice([3, 5, 6, 7, 9, 10, 11, 13])
        if rng.random() < 0.5: xs = sorted(rng.randint(0, 2 * d) / d for _ in range(ln))
        else: xs = [j / d for j in range(ln)]
        sc = rng.choice([1.0, 0.1, 3.0])
        return [off + x * sc for x in sorted(xs)]
    if style == "rand":
        sc = rng.choice([1.0, 2.5, 100.0, 1e-3])
        return sorted(off + rng.random() * sc for _ in range(ln))
    if style == "tiny":                                            # exact zeros next to tiny non-zero gaps (a tolerance is not an exact test)
        v = float(rng.choice([0, 1, -2, 8])); e = rng.choice([-30, -40, -45])
        xs = sorted(rng.randint(0, 4) for _ in range(ln))
        if rng.random() < 0.5: xs[0] = 0
        return [v + x * 2.0 ** e for x in xs]
    raise ValueError(style)

def _layout(rng, exact_only=False, max_chr=4, max_len=8):
    nchr = rng.choice([1, 1, 2, 2, 3, max_chr])
    styles_e = ["even", "even", "grid", "grid", "grid", "cluster", "dup", "tiny"]
    styles = styles_e if exact_only else styles_e + ["frac", "frac", "rand"]
    pos, clen, st = [], [], []
    for _ in range(nchr):
        ln = rng.choice([1, 2, 3, 3, 4, 5, 6, max_len]) if rng.random() < 0.85 else rng.randint(1, max_len)
        s = rng.choice(styles)
        if ln == 1: s = "single"
        c = _chrom_positions(rng, ln, s)
        if rng.random() < 0.15:                                    # one chromosome on another scale: the apportionment sees very unequal lengths
            f = 2.0 ** rng.choice([-12, -6, 6, 12]); c = [x * f for x in c]
        pos += c; clen.append(ln); st.append(s)
    return pos, clen, st

PSCALES = [0, 0, 0, 0, -40, -20, 10, 20]       # whole-genome scale 2^k of the genetic positions (dyadic: every binary64 operation commutes with it)
USCALES = [0, 0, 0, 0, -40, -20, 20]           # scale 2^k of the marker effects
ROUTES = ["ctor", "ctor", "deepcopy", "copy", "matset", "shuffle", "select"]

def _pick_nhap(rng, nchr, p):
    r = rng.random()
    if r < 0.06: return max(0, nchr - 1)                           # fewer blocks than chromosomes: raises
    if r < 0.10: return p + rng.randint(1, 2)                      # more blocks than markers
    if r < 0.30: return nchr
    if r < 0.40: return p
    if r < 0.75: return min(p, nchr + rng.randint(0, 2))
    return rng.randint(nchr, max(nchr, p))

def _geno(rng, m, n, p):
    k = rng.random()
    if k < 0.1: return [[[1] * p for _ in range(n)] for _ in range(m)]
    return [[[rng.randint(0, 1) for _ in range(p)] for _ in range(n)] for _ in range(m)]

def _effects(rng, p, t):
    k = rng.random()
    if k < 0.1: return [[1.0] * t for _ in range(p)]
    return [[rng.randint(-16 * 256, 16 * 256) / 256 if rng.random() < 0.8 else float(rng.randint(-3, 3)) for _ in range(t)] for _ in range(p)]

def _one(rng, kind):
    exact = kind != "helpers" or rng.random() < 0.35
    pos, clen, st = _layout(rng, exact_only=(kind != "helpers" and rng.random() < 0.7))
    p, nchr = len(pos), len(clen)
    k = rng.choice(PSCALES)
    pos = [x * 2.0 ** k for x in pos]
    case = {"kind": kind, "pos": pos, "clen": clen, "styles": st, "nhap": _pick_nhap(rng, nchr, p), "pscale": k}
    if kind == "helpers":
        r = rng.random()
        if r < 0.35:                                               # explicit per-chromosome block numbers for haplobin
            case["nblk"] = [rng.randint(1, max(1, min(ln + 1, 5))) for ln in clen]
        if r > 0.93 and p >= 3:                                    # unsorted positions: markers may stay unlabelled
            q = list(pos); i = rng.randrange(p); j = rng.randrange(p); q[i], q[j] = q[j], q[i]
            case["pos"] = q; case["unsorted"] = True
        return case
    m = rng.choice([1, 2, 2, 2, 3, 4]); n = rng.choice([1, 2, 3, 4, 5]); t = rng.choice([1, 1, 2, 3])
    us = rng.choice(USCALES)
    case.update({"geno": _geno(rng, m, n, p), "u": [[x * 2.0 ** us for x in r] for r in _effects(rng, p, t)], "uscale": us})
    if kind != "haplomat":
        case["route"] = rng.choice(ROUTES)                         # how the genotype matrix object is obtained (library's own routes)
        if case["route"] == "shuffle": case["perm"] = rng.sample(range(p), p)
        if case["route"] == "select":
            extra = rng.randint(1, 2)
            case["extra_taxa"] = [[[rng.randint(0, 1) for _ in range(p)] for _ in range(extra)] for _ in range(m)]
            order = list(range(n + extra)); rng.shuffle(order)
            case["taxa_order"] = order                             # positions of the n + extra taxa in the big matrix
    if kind == "ohv":
        case["cls"] = rng.choice(["Subset", "Subset", "Real", "Integer", "Binary"])
        case["nparent"] = rng.choice([1, 2, 2, 3, 3, 4]); case["uniq"] = rng.random() < 0.5
        if case["uniq"] and case["nparent"] > n: case["nparent"] = n
        case["mem"] = rng.choice([None, 1, 2, 3, 1024])
        ncfg = len(_xmap(n, case["nparent"], case["uniq"]))
        ncross = rng.choice([1, 2, 3])
        if case["cls"] == "Subset": ncross = min(ncross, ncfg)
        case["x"] = _ohv_x(rng, case["cls"], ncfg, ncross)
        case["ncross"] = ncross
        case["ploidy_arg"] = rng.choice([1, 2, 3, 4])              # _calc_ohvmat's own ploidy parameter (not necessarily the number of phases)
        if rng.random() < 0.45:
            # session: the SAME protocol object, genotype matrix and model are reused after setter / in-place updates
            s2 = {"nhap": _pick_nhap(rng, nchr, p), "uniq": rng.random() < 0.5}
            if rng.random() < 0.6: s2["geno"] = _geno(rng, m, n, p)
            if rng.random() < 0.6: s2["u"] = [[x * 2.0 ** us for x in r] for r in _effects(rng, p, t)]
            if rng.random() < 0.4:
                k2 = rng.choice([-3, -1, 1, 2]); s2["pos"] = [x * 2.0 ** k2 + (1.0 if k == 0 else 0.0) for x in pos]
            np2 = case["nparent"]
            if s2["uniq"] and np2 > n: np2 = n
            s2["nparent"] = np2
            ncfg2 = len(_xmap(n, np2, s2["uniq"]))
            if case["cls"] == "Subset" and ncross > ncfg2:             # the subset problem needs at least ncross configurations in both states
                ncross = ncfg2; case["ncross"] = ncross; case["x"] = _ohv_x(rng, case["cls"], ncfg, ncross)
            s2["x"] = _ohv_x(rng, case["cls"], ncfg2, ncross)
            s2["nhap"] = max(1, s2["nhap"]); case["nhap"] = max(1, case["nhap"])   # the protocol's own argument check rejects 0 blocks
            case["session"] = s2
    elif kind == "opv":
        case["x"] = [[rng.randrange(n) for _ in range(rng.randint(1, 4))] for _ in range(3)]
    elif kind == "gb":
        k = rng.randint(1, 4)
        case["x"] = [[rng.randrange(n) for _ in range(k)] for _ in range(2)]
        case["nbest"] = rng.randint(1, min(k, n))
    return case

def _ohv_x(rng, cls, ncfg, ncross):
    if cls == "Subset": return [[rng.randrange(ncfg) for _ in range(min(ncross, ncfg))] for _ in range(2)]
    if cls == "Real": return [[rng.randint(0, 8) / 4 + 0.25 for _ in range(ncfg)] for _ in range(2)]
    if cls == "Integer": return [[rng.randint(0, 3) + (1 if i == 0 else 0) for i in range(ncfg)] for _ in range(2)]
    return [[(1 if i == 0 else rng.randint(0, 1)) for i in range(ncfg)] for _ in range(2)]

def _xmap(n, k, uniq):
    return [list(c) for c in (itertools.combinations(range(n), k) if uniq else itertools.combinations_with_replacement(range(n), k))]

MEMS = [None, 1, 2, 3, 5, 7, 1024]             # chunk sizes of _calc_ohvmat tried on every planted case

def _planted(rng, kind, nparent=2, uniq=True, cls="Subset", k=None):
    """population in which every individual ALONE holds the best block value of one block for trait 0 — so every member of a
    parent tuple / selection (first, MIDDLE, last) decides the optimal value: all copies share one base haplotype; individual i
    carries, in one phase (or all), the favourable allele of trait 0 at a marker q_i of block (i mod #blocks) that nobody else
    carries; the other copies differ from the base only by unfavourable alleles.  One chromosome (blocks known to the generator
    through the reference labelling), few blocks so that the doubled haploids can be enumerated."""
    n = rng.choice([3, 4, 4, 5])
    if kind == "ohv":
        n = rng.choice([max(nparent, 3), 4, 5]) if nparent < 4 else rng.choice([4, 5])
    p = rng.randint(max(n, 2), 7)
    style = rng.choice(["even", "even", "grid", "grid", "cluster", "dup", "tiny"])
    pos = _chrom_positions(rng, p, style)
    nhap = p if rng.random() < 0.4 else rng.randint(1, p)
    raw = _ref_labels(pos, [0], [p], [nhap])
    lab = _ref_spread(raw, [0], [p], [nhap])
    blocks = [[q for q in range(p) if lab[q] == j] for j in range(nhap)]
    blocks = [b for b in blocks if b] or [list(range(p))]
    m = rng.choice([1, 2, 2, 2, 3]); t = rng.choice([1, 1, 2, 3])
    us = rng.choice(USCALES)
    u = _effects(rng, p, t)
    for r in u:
        if r[0] == 0: r[0] = rng.choice([-1, 1]) * rng.randint(1, 16 * 256) / 256
    fav = [1 if r[0] > 0 else 0 for r in u]
    base = [rng.randint(0, 1) for _ in range(p)]
    qs = []
    for i in range(n):
        b = blocks[i % len(blocks)]
        free = [q for q in b if q not in qs] or b
        qs.append(rng.choice(free))
    for q in qs: base[q] = 1 - fav[q]
    geno = [[list(base) for _ in range(n)] for _ in range(m)]
    noisy = rng.random() < 0.5
    for i in range(n):
        ph = rng.randrange(m); allph = rng.random() < 0.3
        for h in range(m):
            if h == ph or allph: geno[h][i][qs[i]] = fav[qs[i]]
            elif noisy:
                for q in range(p):
                    if q not in qs and rng.random() < 0.25: geno[h][i][q] = 1 - fav[q]
    case = {"kind": kind, "pos": pos, "clen": [p], "styles": [style], "nhap": nhap, "pscale": 0, "planted": qs,
            "geno": geno, "u": [[x * 2.0 ** us for x in r] for r in u], "uscale": us, "route": rng.choice(ROUTES)}
    if case["route"] == "shuffle": case["perm"] = rng.sample(range(p), p)
    if case["route"] == "select":
        extra = rng.randint(1, 2)
        case["extra_taxa"] = [[[rng.randint(0, 1) for _ in range(p)] for _ in range(extra)] for _ in range(m)]
        order = list(range(n + extra)); rng.shuffle(order); case["taxa_order"] = order
    if kind == "ohv":
        if uniq and nparent > n: nparent = n
        ncfg = len(_xmap(n, nparent, uniq))
        ncross = rng.choice([1, 2, 3])
        if cls == "Subset": ncross = min(ncross, ncfg)
        case.update({"cls": cls, "nparent": nparent, "uniq": uniq, "mem": rng.choice(MEMS), "mems": list(MEMS), "ncross": ncross,
                     "x": _ohv_x(rng, cls, ncfg, ncross), "ploidy_arg": rng.choice([1, 2, 3, 4])})
    elif kind == "opv":
        # selections of 1..4 individuals, distinct where the population allows, a rotation (the middle member becomes an end
        # member and vice versa) and one with a repeated member
        sel = [rng.sample(range(n), min(j, n)) for j in (1, 2, 3, 4)]
        sel.append(sel[3][1:] + sel[3][:1]); sel.append(sel[2][::-1])
        sel.append([sel[2][0], sel[2][1], sel[2][0], sel[2][-1]])
        case["x"] = sel
    elif kind == "gb":
        k = k or rng.randint(1, 4)
        a = rng.sample(range(n), min(k, n)); a += [rng.randrange(n) for _ in range(k - len(a))]
        case["x"] = [a, a[1:] + a[:1], a[::-1], [rng.randrange(n) for _ in range(k)]]
        case["nbest"] = rng.randint(1, min(k, n))
    return case

WITNESS = {"kind": "haplomat", "pos": [0.0, 1 / 64, 2 / 64, 3 / 64, 1.0], "clen": [5], "nhap": 3, "styles": ["cluster"],
           "geno": [[[1, 1, 1, 1, 1], [1, 0, 1, 0, 1]], [[0, 1, 1, 0, 1], [1, 1, 0, 0, 0]]], "u": [[1.0], [2.0], [-1.0], [0.5], [4.0]]}

# ------------------------------------------------------------------ entry points (enumerated at run time, fail closed)
ENTRY = {   # module -> {function or Class.member: how it is exercised}
    "pybrops.core.util.haplo": {
        "nhaploblk_chrom": "every case", "haplobin": "every case with a valid total (also explicit per-chromosome counts)",
        "haplobin_bounds": "every case", "haplomat": "kind haplomat"},
    "pybrops.breed.prot.sel.prob.OptimalHaploidValueSelectionProblem": {
        "OptimalHaploidValueSelectionProblemMixin.nlatent": "kind ohv", "OptimalHaploidValueSelectionProblemMixin.ohvmat": "getter every ohv case, setter in the lifecycle block",
        "OptimalHaploidValueSelectionProblemMixin._calc_haplomat": "kind ohv (direct call)", "OptimalHaploidValueSelectionProblemMixin._calc_xmap": "kind ohv (protocol and factory)",
        "OptimalHaploidValueSelectionProblemMixin._calc_ohvmat": "kind ohv: factory (mem=1024) and direct call with mem in {None,1,2,3,1024} and its own ploidy argument; planted cases: every chunk size of MEMS, nparent 1..4",
        **{"OptimalHaploidValue%sSelectionProblem.%s" % (c, f): "kind ohv, cls %s" % c for c in ("Subset", "Real", "Integer", "Binary")
           for f in ("__init__", "latentfn", "from_pgmat_gpmod")}},
    "pybrops.breed.prot.sel.prob.OptimalPopulationValueSelectionProblem": {
        "OptimalPopulationValueSelectionProblemMixin.nlatent": "kind opv", "OptimalPopulationValueSelectionProblemMixin.haplomat": "getter every opv case, setter in the lifecycle block",
        "OptimalPopulationValueSelectionProblemMixin.ploidy": "kind opv (1-4 phases)", "OptimalPopulationValueSelectionProblemMixin._calc_haplomat": "kind opv (through the factory)",
        **{"OptimalPopulationValueSubsetSelectionProblem.%s" % f: "kind opv" for f in ("__init__", "latentfn", "from_pgmat_gpmod")}},
    "pybrops.breed.prot.sel.prob.GenotypeBuilderSelectionProblem": {
        "GenotypeBuilderSelectionProblemMixin.nlatent": "kind gb", "GenotypeBuilderSelectionProblemMixin.haplomat": "getter every gb case, setter in the lifecycle block",
        "GenotypeBuilderSelectionProblemMixin.ploidy": "kind gb", "GenotypeBuilderSelectionProblemMixin.nbestfndr": "kind gb (1..#selected, through the constructor)",
        "GenotypeBuilderSelectionProblemMixin._calc_haplomat": "kind gb (through the factory)", "GenotypeBuilderSelectionProblemMixin.from_pgmat_gpmod": "kind gb",
        **{"GenotypeBuilderSubsetSelectionProblem.%s" % f: "kind gb" for f in ("__init__", "latentfn")}},
    "pybrops.breed.prot.sel.OptimalHaploidValueSelection": {
        "OptimalHaploidValueSelectionMixin.ntrait": "constructor", "OptimalHaploidValueSelectionMixin.nhaploblk": "constructor; setter in sessions",
        "OptimalHaploidValueSelectionMixin.unique_parents": "constructor; setter in sessions",
        **{"OptimalHaploidValue%sSelection.%s" % (c, f): "kind ohv, cls %s" % c for c in ("Subset", "Real", "Integer", "Binary") for f in ("__init__", "problem")}},
}
SKIPPED = {
    "OptimalHaploidValueSelectionProblemMixin.from_pgmat_gpmod": "abstract (raises NotImplementedError); the four concrete factories are covered",
    "OptimalPopulationValueSelectionProblemMixin.from_pgmat_gpmod": "abstract (raises NotImplementedError); the concrete factory is covered",
}
PARAMS = {   # parameters of the anchored functions / static methods: a new parameter must be classified here (and exercised) first
    "pybrops.core.util.haplo:nhaploblk_chrom": ["nhaploblk", "genpos", "chrgrp_stix", "chrgrp_spix"],
    "pybrops.core.util.haplo:haplobin": ["nhaploblk_chrom", "genpos", "chrgrp_stix", "chrgrp_spix"],
    "pybrops.core.util.haplo:haplobin_bounds": ["haplobin"],
    "pybrops.core.util.haplo:haplomat": ["nhaploblk", "genomemat", "genpos", "chrgrp_stix", "chrgrp_spix", "chrgrp_len", "u_a"],
    "pybrops.breed.prot.sel.prob.OptimalHaploidValueSelectionProblem:OptimalHaploidValueSelectionProblemMixin._calc_haplomat": ["pgmat", "gpmod", "nhaploblk"],
    "pybrops.breed.prot.sel.prob.OptimalHaploidValueSelectionProblem:OptimalHaploidValueSelectionProblemMixin._calc_xmap": ["ntaxa", "nparent", "unique_parents"],
    "pybrops.breed.prot.sel.prob.OptimalHaploidValueSelectionProblem:OptimalHaploidValueSelectionProblemMixin._calc_ohvmat": ["ploidy", "haplomat", "xmap", "mem"],
    "pybrops.breed.prot.sel.prob.OptimalPopulationValueSelectionProblem:OptimalPopulationValueSelectionProblemMixin._calc_haplomat": ["pgmat", "algpmod", "nhaploblk"],
    "pybrops.breed.prot.sel.prob.GenotypeBuilderSelectionProblem:GenotypeBuilderSelectionProblemMixin._calc_haplomat": ["pgmat", "gpmod", "nhaploblk"],
}

def _check_entry_points():
    """every public function / class member defined in the anchored modules is classified (covered or skipped with a reason)"""
    import importlib, inspect
    problems = []
    for mname, table in ENTRY.items():
        M = importlib.import_module(mname)
        found = set()
        for n, o in vars(M).items():
            if getattr(o, "__module__", None) != mname: continue
            if inspect.isfunction(o): found.add(n)
            elif inspect.isclass(o):
                for k in vars(o):
                    if k == "__init__" or not k.startswith("_") or k.startswith("_calc"): found.add(n + "." + k)
        known = set(table) | {k for k in SKIPPED}
        for x in sorted(found - known): problems.append("%s: %s is neither covered nor skipped" % (mname, x))
        for x in sorted(set(table) - found): problems.append("%s: %s is classified but no longer exists" % (mname, x))
    for key, want in PARAMS.items():
        mname, qual = key.split(":")
        o = importlib.import_module(mname)
        for part in qual.split("."): o = getattr(o, part)
        got = list(inspect.signature(o).parameters)
        if got != want: problems.append("%s: parameters are now %r (classified: %r)" % (key, got, want))
    if problems:
        raise RuntimeError("C18 entry-point table is out of date: " + "; ".join(problems))

def gen_cases(rng, tier):
    _check_entry_points()
    cases = []
    # fixed corner cases: the baseline fixture, the witness of the (repaired) empty-bin defect, boundary ties, single markers
    fix = {"kind": "helpers", "nhap": 5, "clen": [7, 4, 6], "styles": ["fixture"] * 3,
           "pos": [0.10, 1.35, 1.56, 2.10, 2.15, 2.72, 3.04, -0.49, -0.06, 0.59, 0.81, -0.18, -0.04, 0.24, 0.25, 1.04, 1.63]}
    cases.append(fix)
    cases.append(dict(WITNESS))
    cases.append({"kind": "helpers", "nhap": 3, "clen": [5], "styles": ["cluster"], "pos": WITNESS["pos"]})
    cases.append({"kind": "helpers", "nhap": 4, "clen": [5], "styles": ["even"], "pos": [0.0, 1.0, 2.0, 3.0, 4.0]})
    cases.append({"kind": "helpers", "nhap": 2, "clen": [3], "styles": ["even"], "pos": [0.0, 0.5, 1.0]})
    cases.append({"kind": "helpers", "nhap": 3, "clen": [1, 1, 1], "styles": ["single"] * 3, "pos": [1.0, 2.0, 3.0]})
    cases.append({"kind": "helpers", "nhap": 4, "clen": [1, 2], "styles": ["single", "even"], "pos": [1.0, 2.0, 2.0]})
    cases.append({"kind": "helpers", "nhap": 6, "clen": [7], "styles": ["frac"], "pos": [j / 6 for j in range(7)]})
    cases.append({"kind": "helpers", "nhap": 7, "clen": [8], "styles": ["frac"], "pos": [j / 7 for j in range(8)]})
    cases.append({"kind": "helpers", "nhap": 5, "clen": [4, 4], "styles": ["even", "even"], "pos": [0.0, 1.0, 2.0, 3.0, 0.0, 1.0, 2.0, 3.0]})
    # empty equal-width bins: jump at the start, in the middle, several empty bins, zero-length chromosome, second chromosome
    cases.append({"kind": "helpers", "nhap": 3, "clen": [5], "styles": ["cluster"], "pos": [0.0, 1.0 - 3 / 64, 1.0 - 2 / 64, 1.0 - 1 / 64, 1.0]})
    cases.append({"kind": "helpers", "nhap": 5, "clen": [6], "styles": ["cluster"], "pos": [0.0, 1 / 64, 2 / 64, 3 / 64, 3 / 64, 64.0]})
    cases.append({"kind": "helpers", "nhap": 6, "clen": [6], "styles": ["cluster"], "pos": [0.0, 0.0, 1 / 64, 32.0, 64.0, 64.0]})
    cases.append({"kind": "helpers", "nhap": 5, "clen": [4, 3], "styles": ["dup", "dup"], "pos": [1.0, 1.0, 1.0, 1.0, 5.0, 5.0, 5.0], "nblk": [3, 2]})
    cases.append({"kind": "helpers", "nhap": 5, "clen": [2, 5], "styles": ["even", "cluster"], "pos": [0.0, 1.0, 0.0, 1 / 64, 2 / 64, 3 / 64, 1.0], "nblk": [1, 4]})
    cases.append({"kind": "helpers", "nhap": 5, "clen": [2, 2], "styles": ["even", "even"], "pos": [0.0, 1.0, 0.0, 1.0], "nblk": [4, 1]})
    # invalid (unsorted) layouts in which every marker is labelled but labels fall: the pass never lets a label fall
    cases.append({"kind": "helpers", "nhap": 3, "clen": [5], "styles": ["unsorted"], "pos": [0.0, 1.5, 0.5, 3.0, 3.0], "unsorted": True})
    cases.append({"kind": "helpers", "nhap": 5, "clen": [2, 5], "styles": ["even", "unsorted"], "pos": [0.0, 1.0, 0.0, 2.5, 1.5, 0.5, 3.0], "unsorted": True})
    w2 = dict(WITNESS); w2["kind"] = "opv"; w2["x"] = [[0, 1], [1], [0, 0]]
    cases.append(w2)
    w3 = dict(WITNESS); w3.update({"kind": "ohv", "cls": "Subset", "nparent": 2, "uniq": True, "mem": None, "ncross": 1, "x": [[0], [0]]})
    cases.append(w3)
    # exactly one block more than a chromosome has markers must raise in every builder (and exactly as many must not)
    geno3 = [[[1, 0, 1], [0, 1, 1]], [[1, 1, 0], [0, 0, 1]]]; u3 = [[1.0], [2.0], [-0.5]]
    for kind, extra in (("haplomat", {}), ("opv", {"x": [[0, 1], [1]], "route": "ctor"}), ("gb", {"x": [[0, 1]], "nbest": 1, "route": "ctor"}),
                        ("ohv", {"cls": "Subset", "nparent": 2, "uniq": True, "mem": None, "ncross": 1, "x": [[0], [0]], "route": "ctor", "ploidy_arg": 3})):
        for nh in (4, 3):
            c = {"kind": kind, "pos": [0.0, 0.5, 1.0], "clen": [3], "styles": ["even"], "nhap": nh, "geno": geno3, "u": u3}
            c.update(extra); cases.append(c)
        c = {"kind": kind, "pos": [0.0, 0.5, 1.0, 0.0, 8.0], "clen": [3, 2], "styles": ["even", "even"], "nhap": 4,   # apportioned [1, 3] > [3, 2]
             "geno": [[g + [1, 0] for g in ph] for ph in geno3], "u": u3 + [[4.0], [0.25]]}
        c.update(extra); cases.append(c)
    # more blocks / markers than a narrow integer type can count (labels above 127 and above 255)
    cases.append({"kind": "helpers", "nhap": 280, "clen": [300], "styles": ["even"], "pos": [j * 0.25 for j in range(300)]})
    cases.append({"kind": "helpers", "nhap": 140, "clen": [100, 90], "styles": ["grid", "even"], "pos": [j * 0.5 for j in range(100)] + [3.0 + j * 0.125 for j in range(90)]})
    # more cross configurations than the chunk size used by from_pgmat_gpmod (mem = 1024): 47 taxa, 1081 distinct pairs
    r47 = __import__("random").Random(47)
    cases.append({"kind": "ohv", "cls": "Subset", "nparent": 2, "uniq": True, "mem": 1024, "ncross": 2, "route": "ctor", "ploidy_arg": 2,
                  "pos": [0.0, 1.0, 2.0, 4.0], "clen": [4], "styles": ["grid"], "nhap": 2, "x": [[0, 1080], [1023, 1024]],
                  "geno": [[[r47.randint(0, 1) for _ in range(4)] for _ in range(47)] for _ in range(2)], "u": [[1.0], [-2.0], [0.5], [3.0]]})
    N = {"helpers": 150, "haplomat": 40, "ohv": 60, "opv": 30, "gb": 25} if tier == "quick" else \
        {"helpers": 5000, "haplomat": 1200, "ohv": 2000, "opv": 900, "gb": 700}
    for kind, n in N.items():
        for _ in range(n):
            cases.append(_one(rng, kind))
    # planted populations (every individual alone holds the best block somewhere), SYSTEMATICALLY over the number of parents 1..4,
    # unique_parents both ways and the four OHV encodings; selections of 1..4 individuals for OPV / genotype builder
    reps = 1 if tier == "quick" else 12
    for _ in range(reps):
        for nparent in (1, 2, 3, 4):
            for uniq in (True, False):
                for cls in ("Subset", "Real", "Integer", "Binary"):
                    cases.append(_planted(rng, "ohv", nparent, uniq, cls))
        for k in (1, 2, 3, 4):
            for _j in range(2):
                cases.append(_planted(rng, "opv"))
                cases.append(_planted(rng, "gb", k=k))
    return cases

# ------------------------------------------------------------------ implementation driver
def _bounds(clen):
    st, sp, a = [], [], 0
    for l in clen: st.append(a); a += l; sp.append(a)
    return st, sp

class _Instrumented:
    """numpy.empty -> arrays filled with NaN (floats) / -1 (ints): entries the code never writes become observable"""
    def __enter__(self):
        self.orig = numpy.empty
        orig = self.orig
        def empty(shape, dtype=float, *a, **k):
            arr = orig(shape, dtype, *a, **k)
            if arr.dtype.kind == "f": arr.fill(numpy.nan)
            elif arr.dtype.kind in "iu": arr.fill(-1)
            return arr
        numpy.empty = empty
    def __exit__(self, *a):
        numpy.empty = self.orig

def _try(f):
    try: return f()
    except Exception as e: return {"exc": type(e).__name__, "msg": str(e)[:200]}

def _fl(a):
    """float array -> nested lists of hex strings; NaN (never written) -> None"""
    a = numpy.asarray(a, dtype=float)
    if a.ndim == 0:
        x = float(a); return None if math.isnan(x) else x.hex()
    return [_fl(x) for x in a]

def _pg_gp(case):
    """the genotype matrix object and the genomic model of a case; the matrix is obtained through the route named by the case:
    constructor, copy / deepcopy of a constructed object, the `mat` setter, variants given in shuffled order and sorted by
    group_vrnt(), or select_taxa() out of a larger population"""
    import copy as _copy
    from pybrops.popgen.gmat.DensePhasedGenotypeMatrix import DensePhasedGenotypeMatrix
    from pybrops.model.gmod.DenseAdditiveLinearGenomicModel import DenseAdditiveLinearGenomicModel
    mat = numpy.array(case["geno"], dtype="int8")
    p = mat.shape[2]; t = len(case["u"][0])
    chrgrp = numpy.repeat(numpy.arange(1, len(case["clen"]) + 1), case["clen"])
    phypos = numpy.arange(1, p + 1); genpos = numpy.array(case["pos"], dtype=float)
    route = case.get("route", "ctor")
    if route == "shuffle":
        perm = numpy.array(case["perm"])
        pg = DensePhasedGenotypeMatrix(mat[:, :, perm].copy(), vrnt_chrgrp=chrgrp[perm], vrnt_phypos=phypos[perm], vrnt_genpos=genpos[perm])
    elif route == "matset":
        pg = DensePhasedGenotypeMatrix(numpy.zeros_like(mat), vrnt_chrgrp=chrgrp, vrnt_phypos=phypos, vrnt_genpos=genpos)
        pg.group_vrnt()
        pg.mat = mat
    elif route == "select":
        order = case["taxa_order"]; n = mat.shape[1]
        big = numpy.concatenate([mat, numpy.array(case["extra_taxa"], dtype="int8")], axis=1)[:, order, :]
        where = [order.index(i) for i in range(n)]                 # where the case's taxa sit in the big population
        pg0 = DensePhasedGenotypeMatrix(big, vrnt_chrgrp=chrgrp, vrnt_phypos=phypos, vrnt_genpos=genpos)
        pg0.group_vrnt()
        pg = pg0.select_taxa(where)
    else:
        pg = DensePhasedGenotypeMatrix(mat, vrnt_chrgrp=chrgrp, vrnt_phypos=phypos, vrnt_genpos=genpos)
    if route not in ("matset", "select"):
        pg.group_vrnt()
    if route == "deepcopy": pg = _copy.deepcopy(pg)
    if route == "copy": pg = _copy.copy(pg)
    gp = DenseAdditiveLinearGenomicModel(beta=numpy.zeros((1, t)), u_misc=None, u_a=numpy.array(case["u"], dtype=float),
                                         trait=numpy.array(["t%d" % i for i in range(t)], dtype=object))
    return pg, gp

def run_impl(case):
    from pybrops.core.util import haplo
    with _Instrumented():
        return _run(case, haplo)

def _lifecycle(prob, attr, xs, dt):
    """the latent function along the object's life: called twice, on a deep copy and on a shallow copy, after the matrix setter
    received twice the matrix (state at the call decides, nothing memoised), with the stored matrix and the argument unchanged"""
    import copy as _copy
    out = {}
    M0 = numpy.array(getattr(prob, attr), copy=True)
    xa = [numpy.array(x, dtype=dt) for x in xs]
    xb = [a.copy() for a in xa]
    out["twice"] = [_fl(prob.latentfn(a)) for a in xa]
    out["kept"] = bool(numpy.array_equal(getattr(prob, attr), M0, equal_nan=True) and all(numpy.array_equal(a, b) for a, b in zip(xa, xb)))
    out["deep"] = [_fl(_copy.deepcopy(prob).latentfn(a)) for a in xa]
    out["shallow"] = [_fl(_copy.copy(prob).latentfn(a)) for a in xa]
    setattr(prob, attr, 2.0 * M0)
    out["doubled"] = [_fl(prob.latentfn(a)) for a in xa]
    setattr(prob, attr, M0)
    return out

def _run_ohv(case, out, objs=None):
    """build the OHV problem of `case` through the selection protocol; `objs` = (selection object, genotype matrix, model) of an
    earlier state that are REUSED after setter / in-place updates (session) instead of fresh ones"""
    import pybrops.breed.prot.sel.OptimalHaploidValueSelection as S
    import pybrops.breed.prot.sel.prob.OptimalHaploidValueSelectionProblem as P
    nhap = case["nhap"]; t = len(case["u"][0])
    pcls = getattr(P, "OptimalHaploidValue%sSelectionProblem" % case["cls"])
    if objs is None:
        pg, gp = _pg_gp(case)
        sel = _try(lambda: getattr(S, "OptimalHaploidValue%sSelection" % case["cls"])(
            ntrait=t, nhaploblk=nhap, unique_parents=case["uniq"], ncross=case["ncross"], nparent=case["nparent"],
            nmating=1, nprogeny=1, nobj=t))
        if isinstance(sel, dict):                                  # the protocol's own argument check (nhaploblk = 0)
            h = _try(lambda: pcls._calc_haplomat(pg, gp, nhap))
            out["hmat"] = h if isinstance(h, dict) else _fl(h)
            out["prob"] = sel; return None
    else:
        sel, pg, gp = objs
        sel.nhaploblk = nhap; sel.unique_parents = case["uniq"]; sel.nparent = case["nparent"]
        pg.mat[...] = numpy.array(case["geno"], dtype="int8")          # in-place updates of the SAME arrays
        pg.vrnt_genpos[...] = numpy.array(case["pos"], dtype=float)
        gp.u_a[...] = numpy.array(case["u"], dtype=float)
    h = _try(lambda: pcls._calc_haplomat(pg, gp, nhap))
    out["hmat"] = h if isinstance(h, dict) else _fl(h)
    prob = _try(lambda: sel.problem(pg, None, None, None, gp, 0, 1))
    if isinstance(prob, dict):
        out["prob"] = prob; return (sel, pg, gp)
    out["ohvmat"] = _fl(prob.ohvmat)
    out["xmap"] = numpy.asarray(prob.decn_space_xmap).tolist()
    out["nlatent"] = int(prob.nlatent)
    if not isinstance(h, dict):
        pa = case.get("ploidy_arg", h.shape[0])
        o2 = _try(lambda: pcls._calc_ohvmat(pa, h, numpy.asarray(prob.decn_space_xmap), case["mem"]))
        out["ohvmat_mem"] = o2 if isinstance(o2, dict) else _fl(o2)
        if "mems" in case:                                         # several chunk sizes on the same matrix and cross map
            out["ohvmat_mems"] = []
            for mm in case["mems"]:
                o3 = _try(lambda: pcls._calc_ohvmat(pa, h, numpy.asarray(prob.decn_space_xmap), mm))
                out["ohvmat_mems"].append(o3 if isinstance(o3, dict) else _fl(o3))
    dt = {"Subset": int, "Real": float, "Integer": int, "Binary": int}[case["cls"]]
    out["latent"] = [_fl(prob.latentfn(numpy.array(x, dtype=dt))) for x in case["x"]]
    if "route" in case:
        out["life"] = _try(lambda: _lifecycle(prob, "ohvmat", case["x"], dt))
        out["inputs_kept"] = bool(numpy.array_equal(pg.mat, numpy.array(case["geno"], dtype="int8"))
                                  and numpy.array_equal(pg.vrnt_genpos, numpy.array(case["pos"], dtype=float))
                                  and numpy.array_equal(gp.u_a, numpy.array(case["u"], dtype=float)))
    return (sel, pg, gp)

def _second(case):
    """the second state of a session as a case of its own"""
    c2 = {k: v for k, v in case.items() if k != "session"}
    c2.update(case["session"])
    return c2

def _run(case, haplo):
    out = {}
    _run_helpers(case, haplo, out)
    pos = numpy.array(case["pos"], dtype=float)
    st, sp = _bounds(case["clen"]); stix, spix = numpy.array(st), numpy.array(sp)
    nhap = case["nhap"]
    kind = case["kind"]
    if kind == "helpers":
        return out
    return _run_rest(case, haplo, out, pos, stix, spix, nhap, kind)

def _run_helpers(case, haplo, out):
    pos = numpy.array(case["pos"], dtype=float)
    st, sp = _bounds(case["clen"]); stix, spix = numpy.array(st), numpy.array(sp)
    nhap = case["nhap"]
    keep = (pos.copy(), stix.copy(), spix.copy())
    nb = _try(lambda: haplo.nhaploblk_chrom(nhap, pos, stix, spix))
    out["nblk"] = nb if isinstance(nb, dict) else [int(x) for x in nb]
    use = case.get("nblk", None if isinstance(nb, dict) else out["nblk"])
    if use is not None:
        ua = numpy.array(use); ub = ua.copy()
        hb = haplo.haplobin(ua, pos, stix, spix)
        out["hbin"] = [int(x) for x in hb]
        hb0 = hb.copy()
        b = haplo.haplobin_bounds(hb)
        out["bounds"] = [[int(x) for x in a] for a in b]
        out["helpers_kept"] = bool(numpy.array_equal(ua, ub) and numpy.array_equal(hb, hb0))
    out["helpers_kept"] = bool(out.get("helpers_kept", True) and numpy.array_equal(pos, keep[0]) and numpy.array_equal(stix, keep[1])
                               and numpy.array_equal(spix, keep[2]))

def _run_rest(case, haplo, out, pos, stix, spix, nhap, kind):
    geno = numpy.array(case["geno"], dtype="int8"); u = numpy.array(case["u"], dtype=float)
    before = (geno.copy(), u.copy(), pos.copy())
    if kind == "haplomat":
        clen = numpy.array(case["clen"])
        h = _try(lambda: haplo.haplomat(nhap, geno, pos, stix, spix, clen, u))
        out["hmat"] = h if isinstance(h, dict) else _fl(h)
        out["unchanged"] = bool(numpy.array_equal(geno, before[0]) and numpy.array_equal(u, before[1]) and numpy.array_equal(pos, before[2]))
        if not isinstance(h, dict):
            # aliasing: the result does not share memory with the inputs (in-place writes on either side do not reach the other),
            # and a second call on the same arrays returns the same result (nothing cached, nothing damaged)
            h0 = h.copy()
            h[...] = 7.0
            out["unchanged"] = bool(out["unchanged"] and numpy.array_equal(geno, before[0]) and numpy.array_equal(u, before[1])
                                    and numpy.array_equal(pos, before[2]))
            h2 = _try(lambda: haplo.haplomat(nhap, geno, pos, stix, spix, clen, u))
            out["again"] = h2 if isinstance(h2, dict) else _fl(h2)
            if not isinstance(h2, dict):
                g2 = geno.copy(); u2 = u.copy(); keep2 = h2.copy()
                geno[...] = 1 - geno; u[...] = u + 1.0
                out["result_detached"] = bool(numpy.array_equal(h2, keep2, equal_nan=True))
                geno[...] = g2; u[...] = u2
        return out
    n = geno.shape[1]; t = u.shape[1]
    if kind == "ohv":
        objs = _run_ohv(case, out)
        if "session" in case:
            c2 = _second(case)
            o2 = {}; _run_helpers(c2, haplo, o2)
            r = _try(lambda: _run_ohv(c2, o2, objs))
            out["second"] = r if isinstance(r, dict) else o2
            o3 = {}; _run_helpers(c2, haplo, o3)
            r = _try(lambda: _run_ohv(c2, o3, None))
            out["second_fresh"] = r if isinstance(r, dict) else o3
        return out
    pg, gp = _pg_gp(case)
    if kind == "opv":
        from pybrops.breed.prot.sel.prob.OptimalPopulationValueSelectionProblem import OptimalPopulationValueSubsetSelectionProblem as C
        prob = _try(lambda: C.from_pgmat_gpmod(nhap, pg, gp, ndecn=1, decn_space=numpy.arange(n), decn_space_lower=numpy.repeat(0, 1),
                                               decn_space_upper=numpy.repeat(n - 1, 1), nobj=t))
    elif kind == "gb":
        from pybrops.breed.prot.sel.prob.GenotypeBuilderSelectionProblem import GenotypeBuilderSubsetSelectionProblem as C
        k = min(len(case["x"][0]), n)
        prob = _try(lambda: C.from_pgmat_gpmod(pg, gp, nhap, case["nbest"], ndecn=k, decn_space=numpy.arange(n),
                                               decn_space_lower=numpy.repeat(0, k), decn_space_upper=numpy.repeat(n - 1, k), nobj=t))
    else:
        raise ValueError(kind)
    if isinstance(prob, dict):
        out["hmat"] = prob; return out
    out["hmat"] = _fl(prob.haplomat); out["ploidy"] = int(prob.ploidy); out["nlatent"] = int(prob.nlatent)
    out["latent"] = [_fl(prob.latentfn(numpy.array(x, dtype=int))) for x in case["x"]]
    if "route" in case:
        out["life"] = _try(lambda: _lifecycle(prob, "haplomat", case["x"], int))
        keep3 = numpy.array(prob.haplomat, copy=True)
        pg.mat[...] = 1 - pg.mat; gp.u_a[...] = gp.u_a + 1.0       # later in-place changes of the inputs do not reach the problem
        out["result_detached"] = bool(numpy.array_equal(prob.haplomat, keep3, equal_nan=True))
    return out

# ------------------------------------------------------------------ Coq emitter
def _fh(h): return float.fromhex(h)
def _oq(h): return "None" if h is None else "(Some %s)" % E.q(Fraction(_fh(h)))
def _onat(x): return "None" if x < 0 else "(Some %s)" % E.nat(x)
def _hm(h, ekind):
    if isinstance(h, dict):
        return "(Err %s)" % ERRMAP.get(h["exc"], "ERecursion")
    return "(Ok %s)" % E.lst(h, lambda a: E.lst(a, lambda b: E.lst(b, lambda c: E.lst(c, _oq))))

def _linspace_exact(lo, hi, n):
    """is numpy.linspace(lo, hi, n+1) equal to the exact rational boundaries?"""
    hb = numpy.linspace(lo, hi, n + 1)
    return all(Fraction(float(hb[j])) == Fraction(lo) + Fraction(j, n) * (Fraction(hi) - Fraction(lo)) for j in range(n + 1))

def _apportion_exact(nhap, pos, st, sp):
    """exact-arithmetic greedy apportionment; None when a tie (exact or near) makes the binary64 choice rounding-dependent"""
    gl = [Fraction(pos[b - 1]) - Fraction(pos[a]) for a, b in zip(st, sp)]
    s = sum(gl)
    if s == 0: return None
    ideal = [Fraction(nhap) * g / s for g in gl]
    cur = [1] * len(gl)
    for _ in range(nhap - len(gl)):
        d = [c - i for c, i in zip(cur, ideal)]
        mn = min(d); ix = d.index(mn)
        near = [j for j, x in enumerate(d) if j != ix and abs(x - mn) < Fraction(1, 10 ** 6)]
        # a tie between chromosomes of identical length and count is an exact tie in binary64 too: the first index wins
        if any(not (gl[j] == gl[ix] and cur[j] == cur[ix]) for j in near): return None
        cur[ix] += 1
    return cur

def emit_case(case, out):
    if "exc" in out: return "false"
    nat, fh = E.nat, E.fhex
    pos = case["pos"]; st, sp = _bounds(case["clen"]); nhap = case["nhap"]
    GP = E.lst(pos, fh); ST = E.lst(st, nat); SP = E.lst(sp, nat)
    parts = []
    nb = out["nblk"]
    NB = "(Err %s)" % ERRMAP.get(nb["exc"], "ERecursion") if isinstance(nb, dict) else "(Ok %s)" % E.lst(nb, nat)
    parts.append("res_eqb natl_eqb (nhaploblk_chrom fops %s %s %s %s) %s" % (nat(nhap), GP, ST, SP, NB))
    use = case.get("nblk", None if isinstance(nb, dict) else nb)
    if not isinstance(nb, dict) and len(pos) and all(math.isfinite(x) for x in pos):
        ex = _apportion_exact(nhap, pos, st, sp)
        if ex is not None:
            parts.append("res_eqb natl_eqb (nhaploblk_chrom qops %s %s %s %s) %s" % (nat(nhap), E.lst(pos, E.q), ST, SP, NB))
    if use is not None:
        U = E.lst(use, nat)
        if case.get("unsorted"):
            # invalid layout: a marker may stay unlabelled; that label and the later ones of the chromosome then depend on
            # what numpy.empty found (model: None) and are not compared
            HB = E.lst([max(x, 0) for x in out["hbin"]], nat)
            cmp_ = "lab_agree (haplobin %s %s %s %s %s) %s"
        else:
            HB = E.lst(out["hbin"], _onat)
            cmp_ = "list_eqb (opt_eqb Nat.eqb) (haplobin %s %s %s %s %s) %s"
        parts.append(cmp_ % ("fops", U, GP, ST, SP, HB))
        if not case.get("unsorted"):                               # the hypothesis of the float-instance theorems, checked per case
            parts.append("lin_hyp_f %s %s" % (U, E.lst([pos[a:b] for a, b in zip(st, sp)], lambda c: E.lst(c, fh))))
        if all(_linspace_exact(pos[a], pos[b - 1], k) for k, a, b in zip(use, st, sp)):
            parts.append(cmp_ % ("qops", U, E.lst(pos, E.q), ST, SP, HB))
        if all(x >= 0 for x in out["hbin"]):
            b = out["bounds"]
            parts.append("res_eqb bounds_eqb (haplobin_bounds %s) (Ok (%s, %s, %s))" % (E.lst(out["hbin"], nat), E.lst(b[0], nat), E.lst(b[1], nat), E.lst(b[2], nat)))
    kind = case["kind"]
    if kind == "helpers":
        return "(" + "\n   && ".join(parts) + ")"
    geno = case["geno"]; u = case["u"]; t = len(u[0]); m = len(geno)
    G = E.lst3(geno, E.z); U_ = E.lst2(u, lambda x: E.q(Fraction(x))); CL = E.lst(case["clen"], nat)
    e1, e2 = ("EValue", "EValue") if kind == "ohv" else ("EOther", "EOther")
    HM = "(calc_haplomat fops %s %s %s %s %s %s %s %s %s %s)" % (e1, e2, nat(nhap), G, GP, ST, SP, CL, U_, nat(t))
    parts.append("res_eqb hmat_eqb %s %s" % (HM, _hm(out["hmat"], kind)))
    if kind == "haplomat" or isinstance(out["hmat"], dict) or "prob" in out:
        if kind != "haplomat" and not isinstance(out["hmat"], dict): return "false"
        if "session" in case:
            if not isinstance(out.get("second"), dict) or "exc" in out["second"]: return "false"
            parts.append(emit_case(_second(case), out["second"]))
        return "(" + "\n   && ".join(parts) + ")"
    H = "(match %s with Ok h => h | Err _ => [] end)" % HM
    L2 = lambda rows: E.lst(rows, lambda r: E.lst(r, _oq))
    if kind == "ohv":
        n = len(geno[0])
        X = "(calc_xmap %s %s %s)" % (nat(n), nat(case["nparent"]), E.b(case["uniq"]))
        parts.append("natll_eqb %s %s" % (X, E.lst2(out["xmap"], nat)))
        OHV = "(calc_ohvmat %s %s %s %s %s)" % (E.z(m), nat(nhap), nat(t), H, X)
        parts.append("oqll_agree %s %s" % (OHV, L2(out["ohvmat"])))
        if "ohvmat_mem" in out:
            if isinstance(out["ohvmat_mem"], dict): return "false"
            OHVp = "(calc_ohvmat %s %s %s %s %s)" % (E.z(case.get("ploidy_arg", m)), nat(nhap), nat(t), H, X)
            parts.append("oqll_agree %s %s" % (OHVp, L2(out["ohvmat_mem"])))
        parts.append("Nat.eqb %s %s" % (nat(out["nlatent"]), nat(t)))
        for x, lat in zip(case["x"], out["latent"]):
            if case["cls"] == "Subset":
                parts.append("oql_close (ohv_latent %s %s %s) %s" % (nat(t), OHV, E.lst(x, nat), E.lst(lat, _oq)))
            else:
                parts.append("oql_close (ohv_latent_w %s %s %s) %s" % (nat(t), OHV, E.lst(x, lambda v: E.q(Fraction(v))), E.lst(lat, _oq)))
        if "session" in case:                                      # the second state of the session, computed with the REUSED objects
            if not isinstance(out.get("second"), dict) or "exc" in out["second"]: return "false"
            parts.append(emit_case(_second(case), out["second"]))
    elif kind == "opv":
        parts.append("Nat.eqb %s %s && Nat.eqb %s %s" % (nat(out["ploidy"]), nat(m), nat(out["nlatent"]), nat(t)))
        for x, lat in zip(case["x"], out["latent"]):
            parts.append("oql_agree (opv_latent %s %s %s %s) %s" % (nat(nhap), nat(t), H, E.lst(x, nat), E.lst(lat, _oq)))
    elif kind == "gb":
        parts.append("Nat.eqb %s %s && Nat.eqb %s %s" % (nat(out["ploidy"]), nat(m), nat(out["nlatent"]), nat(t)))
        for x, lat in zip(case["x"], out["latent"]):
            parts.append("oql_close (gb_latent %s %s %s %s %s) %s" % (nat(nhap), nat(t), nat(case["nbest"]), H, E.lst(x, nat), E.lst(lat, _oq)))
    return "(" + "\n   && ".join(parts) + ")"

# ------------------------------------------------------------------ independent predicate
def _ref_labels(pos, st, sp, nblk):
    """equal-width bins over each chromosome's span, closed at both ends, the later bin wins a tie (-1: no bin holds the marker)"""
    lab, k = [], 0
    for a, b, n in zip(st, sp, nblk):
        hb = numpy.linspace(pos[a], pos[b - 1], n + 1)
        for x in pos[a:b]:
            js = [j for j in range(n) if hb[j] <= x <= hb[j + 1]]
            lab.append(k + js[-1] if js else -1)
        k += n
    return lab

def _ref_spread(raw, st, sp, nblk):
    """the property's definition of the block labels, written in closed form (not the loop of the implementation): start from
    the equal-width labels; a label may exceed its predecessor's by at most one (running minimum of label - index), and a
    marker's label is at least (last label of the chromosome) - (markers that follow), at most (first label) + (markers
    that precede).  Identity whenever every equal-width bin of the chromosome holds a marker.  None: depends on an unlabelled marker."""
    ref, k = [], 0
    for a, b, n in zip(st, sp, nblk):
        r = raw[a:b]; m = b - a
        good = next((i for i, x in enumerate(r) if x < 0), m)     # labels before the first unlabelled marker are determined
        if good:
            v = numpy.array(r[:good]); ix = numpy.arange(good)
            f = ix + numpy.minimum.accumulate(v - ix)
            o = numpy.minimum(numpy.maximum(f, (k + n - m) + ix), k + ix)
            ref += [int(x) for x in o]
        ref += [None] * (m - good)
        k += n
    return ref

def _empty_bin(case, out):
    """clustered positions: after equal-width binning some label 0..nhaploblk-1 is carried by no marker (the repair pass acts)"""
    nb = out.get("nblk")
    if not isinstance(nb, list) or "nblk" in case: return False
    st, sp = _bounds(case["clen"])
    if case["nhap"] != sum(nb): return False
    lab = _ref_labels(case["pos"], st, sp, nb)
    return set(range(case["nhap"])) - set(lab) != set()

def _dh_best(geno, u, runs, inds, i, cap=6000):
    """the largest additive value (trait i, times the number of phases) among ALL doubled haploids that take each block from one
    (phase, parent) copy of the individuals `inds` — by plain enumeration of the (#copies)^(#blocks) assemblies, computed from the
    genotypes and effects alone (neither the haplotype matrix of the implementation nor the model is used); None: too many"""
    m = len(geno); who = list(dict.fromkeys(inds))
    copies = [geno[ph][d] for ph in range(m) for d in who]
    if not copies or not runs or len(copies) ** len(runs) > cap: return None
    den = 1
    for r in u: den = den * r[i].denominator // math.gcd(den, r[i].denominator)
    w = [int(r[i] * den) for r in u]
    best = None
    for src in itertools.product(range(len(copies)), repeat=len(runs)):
        dh = []
        for (a, e), c in zip(runs, src): dh += copies[c][a:e]
        v = sum(g * x for g, x in zip(dh, w))
        if best is None or v > best: best = v
    return Fraction(m * best, den)

def _F(h): return Fraction(_fh(h))

def pred(case, out):
    bad = _pred1(case, out)
    if "session" in case and "exc" not in out:
        # a result depends on the state at the call, never on an earlier call: the second problem built with the REUSED protocol
        # object / genotype matrix / model (setters and in-place updates in between) is what fresh objects give, and satisfies the property
        a, b = out.get("second"), out.get("second_fresh")
        if not isinstance(a, dict) or not isinstance(b, dict): bad.append("session: second state missing")
        elif a != b:
            diff = sorted(k for k in set(a) | set(b) if a.get(k) != b.get(k))
            bad.append("session: the second call on the reused objects differs from a fresh construction in %s" % ", ".join(diff))
        if isinstance(a, dict):
            bad += ["session (second state): " + c for c in _pred1(_second(case), a)]
    return _dedup(bad)

def _life_clauses(case, out, kind):
    bad = []
    if "route" not in case or "latent" not in out: return bad
    lf = out.get("life")
    if not isinstance(lf, dict) or "exc" in lf:
        return ["latent function along the object's life raised: %r" % (lf,)]
    lat = out["latent"]
    if lf["twice"] != lat: bad.append("a second latentfn call on the same problem gives another value")
    if lf["deep"] != lat: bad.append("latentfn of a deep copy of the problem differs")
    if lf["shallow"] != lat: bad.append("latentfn of a shallow copy of the problem differs")
    if not lf["kept"]: bad.append("latentfn changed the stored matrix or its argument")
    dbl = [[None if v is None else (2.0 * _fh(v)).hex() for v in r] for r in lat]
    if lf["doubled"] != dbl: bad.append("after the matrix setter received twice the matrix latentfn is not twice the former value (stale state)")
    if out.get("inputs_kept") is False: bad.append("problem construction changed the genotype matrix / positions / effects")
    if out.get("result_detached") is False: bad.append("the problem's matrix changed when the inputs were later updated in place (shared memory)")
    return bad

def _pred1(case, out):
    if "exc" in out:
        return ["implementation raised %s: %s" % (out["exc"], out["msg"])]
    bad = []
    if out.get("helpers_kept") is False: bad.append("a helper changed one of its input arrays")
    pos = case["pos"]; clen = case["clen"]; st, sp = _bounds(clen); nhap = case["nhap"]; nchr = len(clen); p = len(pos)
    nb = out["nblk"]
    valid_sorted = not case.get("unsorted")
    # --- apportionment
    if nhap < nchr:
        # invalid total: the code intends ValueError (its message has a malformed format string, so IndexError escapes)
        if not isinstance(nb, dict): bad.append("nhaploblk < nchr must raise")
    elif isinstance(nb, dict):
        bad.append("nhaploblk_chrom raised %s for a valid total" % nb["exc"])
    else:
        if len(nb) != nchr: bad.append("one block count per chromosome")
        if any(x < 1 for x in nb): bad.append("a chromosome received no block: %r" % nb)
        if sum(nb) != nhap: bad.append("block counts %r do not add up to the requested total %d" % (nb, nhap))
        ex = _apportion_exact(nhap, pos, st, sp) if valid_sorted else None
        if ex is not None and ex != nb: bad.append("apportionment %r differs from the greedy length-proportional one %r" % (nb, ex))
    use = case.get("nblk", None if isinstance(nb, dict) else nb)
    lab = None
    if use is not None:
        lab = out["hbin"]; b = out["bounds"]
        raw = _ref_labels(pos, st, sp, use)
        ref = _ref_spread(raw, st, sp, use)
        if len(lab) != p: bad.append("one label per marker")
        if valid_sorted and any(r is None or x != r for x, r in zip(lab, ref)):
            bad.append("block labels %r differ from the equal-width bins %r with empty bins refilled %r" % (lab, raw, ref))
        if valid_sorted:
            if any(x < 0 for x in lab): bad.append("a marker is assigned to no block")
            if any(lab[i] > lab[i + 1] for i in range(p - 1)): bad.append("labels are not non-decreasing (blocks not contiguous/ordered)")
            k = 0
            for a, e, n in zip(st, sp, use):
                if any(not (k <= x < k + n) for x in lab[a:e]): bad.append("a block crosses a chromosome boundary")
                k += n
            if all(n <= l for n, l in zip(use, clen)) and sorted(set(lab)) != list(range(sum(use))):
                bad.append("%d blocks found, %d requested" % (len(set(lab)), sum(use)))
            k = 0
            for a, e, n in zip(st, sp, use):                       # where no equal-width bin is empty the equal-width labels stand
                if set(raw[a:e]) == set(range(k, k + n)) and lab[a:e] != raw[a:e]:
                    bad.append("labels %r differ from the equal-width bins %r although no bin of the chromosome is empty" % (lab[a:e], raw[a:e]))
                k += n
        # run-length boundaries of whatever labels were produced
        hs, he, hl = b
        if all(x >= 0 for x in lab):
            runs = [[i for i in range(p) if (i == 0 or lab[i] != lab[i - 1])], None]
            runs[1] = runs[0][1:] + [p]
            if hs != runs[0] or he != runs[1]: bad.append("haplobin_bounds start/stop %r/%r are not the run boundaries %r/%r" % (hs, he, runs[0], runs[1]))
            if hl != [e - s for s, e in zip(hs, he)] or any(x < 1 for x in hl): bad.append("haplobin_bounds lengths")
            if hs[0] != 0 or he[-1] != p or hs[1:] != he[:-1]: bad.append("runs do not partition the markers")
    kind = case["kind"]
    if kind == "helpers":
        return _dedup(bad)
    geno = case["geno"]; u = [[Fraction(x) for x in r] for r in case["u"]]
    m, n, t = len(geno), len(geno[0]), len(u[0])
    hm = out["hmat"]
    raises = {"ohv": "ValueError"}.get(kind, "RuntimeError")
    must_raise = nhap < nchr or (isinstance(nb, list) and any(x > l for x, l in zip(nb, clen)))
    if must_raise:
        if not (isinstance(hm, dict) and hm["exc"] == raises): bad.append("haplotype matrix must raise %s for this layout" % raises)
        if kind == "ohv" and "prob" not in out: bad.append("problem construction must raise")
        return _dedup(bad)
    if isinstance(hm, dict):
        bad.append("haplotype matrix raised %s: %s" % (hm["exc"], hm["msg"])); return _dedup(bad)
    if not (len(hm) == m and all(len(a) == n and all(len(b_) == nhap and all(len(c) == t for c in b_) for b_ in a) for a in hm)):
        bad.append("haplotype matrix shape is not (m,n,nhaploblk,t)"); return _dedup(bad)
    runs = list(zip(out["bounds"][0], out["bounds"][1]))
    if len(runs) != nhap: bad.append("%d runs of markers for %d requested blocks" % (len(runs), nhap))
    total = lambda g, i: sum(Fraction(g[j]) * u[j][i] for j in range(p))
    for ph in range(m):
        for ind in range(n):
            g = geno[ph][ind]
            for i in range(t):
                vals = [hm[ph][ind][j][i] for j in range(nhap)]
                for j in range(nhap):
                    if vals[j] is None:
                        bad.append("block value never written (uninitialised memory) at block %d" % j)
                    elif j < len(runs):
                        a, e = runs[j]
                        if _F(vals[j]) != sum(Fraction(g[q]) * u[q][i] for q in range(a, e)): bad.append("block %d value is not genotype . effects over its markers" % j)
                    else: bad.append("block %d written although only %d runs exist" % (j, len(runs)))
                if all(v is not None for v in vals) and sum(_F(v) for v in vals) != total(g, i):
                    bad.append("block values do not add up to the copy's additive value")
    if kind == "haplomat":
        if not out["unchanged"]: bad.append("inputs mutated")
        if "again" in out and out["again"] != hm: bad.append("a second haplomat call on the same arrays gives another result")
        if out.get("result_detached") is False: bad.append("the haplotype matrix changed when the inputs were later updated in place (shared memory)")
        return _dedup(bad)
    bad += _life_clauses(case, out, kind)
    H = lambda ph, ind, j, i: hm[ph][ind][j][i]
    def best_sum(inds, i):
        s = Fraction(0)
        for j in range(nhap):
            vs = [H(ph, d, j, i) for ph in range(m) for d in inds]
            if any(v is None for v in vs): return None
            s += max(_F(v) for v in vs)
        return m * s
    if kind == "ohv":
        if "prob" in out:
            bad.append("problem construction raised %s: %s" % (out["prob"]["exc"], out["prob"]["msg"])); return _dedup(bad)
        xm = out["xmap"]
        if xm != _xmap(n, case["nparent"], case["uniq"]): bad.append("cross map is not the list of %s parent tuples" % ("distinct" if case["uniq"] else "unordered"))
        ohv = out["ohvmat"]
        if len(ohv) != len(xm) or any(len(r) != t for r in ohv): bad.append("ohvmat shape"); return _dedup(bad)
        import random as _r
        rr = _r.Random(len(xm) * 7919 + nhap)
        brute_rows = set(range(len(xm))) if len(xm) <= 10 else set([0, len(xm) - 1] + _r.Random(len(xm)).sample(range(len(xm)), 8))
        for s_, par in enumerate(xm):
            for i in range(t):
                want = best_sum(par, i)
                got = ohv[s_][i]
                if got is None: bad.append("optimal haploid value is not finite"); continue
                if want is None: continue
                if _F(got) != want: bad.append("ohvmat[%d][%d] is not ploidy * sum over blocks of the best parental block value" % (s_, i))
                # a doubled haploid recombining only at block boundaries cannot beat it
                if len(runs) == nhap:
                    dh = []
                    for a, e in runs:
                        src = geno[rr.randrange(m)][rr.choice(par)]
                        dh += src[a:e]
                    if m * total(dh, i) > _F(got): bad.append("a block-boundary doubled haploid exceeds the optimal haploid value")
                    # ... and none of ALL of them does, while one attains it (enumeration on small cases; a sample of the crosses of a large map)
                    if s_ in brute_rows:
                        bf = _dh_best(geno, u, runs, par, i)
                        if bf is not None and bf > _F(got):
                            bad.append("brute force: some doubled haploid recombining only at block boundaries between the %d designated parents exceeds the optimal haploid value (nparent=%d)" % (len(par), len(par)))
                        if bf is not None and bf < _F(got):
                            bad.append("brute force: no doubled haploid recombining only at block boundaries attains the optimal haploid value")
        if "ohvmat_mem" in out:
            pa = case.get("ploidy_arg", m); om = out["ohvmat_mem"]
            if isinstance(om, dict): bad.append("_calc_ohvmat raised %s" % om["exc"])
            elif len(om) != len(ohv) or any((a is None) != (b is None) or (a is not None and _F(a) * m != _F(b) * pa)
                                            for ra, rb in zip(om, ohv) for a, b in zip(ra, rb)):
                bad.append("_calc_ohvmat(ploidy=%d, mem=%r) is not %d/%d times the problem's ohvmat (depends on the chunk size or ignores its ploidy argument)" % (pa, case["mem"], pa, m))
        for mm, om in zip(case.get("mems", []), out.get("ohvmat_mems", [])):
            pa = case.get("ploidy_arg", m)
            if isinstance(om, dict): bad.append("_calc_ohvmat(mem=%r) raised %s" % (mm, om["exc"]))
            elif len(om) != len(ohv) or any((a is None) != (b is None) or (a is not None and _F(a) * m != _F(b) * pa)
                                            for ra, rb in zip(om, ohv) for a, b in zip(ra, rb)):
                bad.append("_calc_ohvmat with chunk size %r is not %d/%d times the problem's ohvmat (the result depends on the chunk size)" % (mm, pa, m))
        if "mems" in case and len(out.get("ohvmat_mems", [])) != len(case["mems"]): bad.append("chunk-size runs missing")
        if out["nlatent"] != t: bad.append("nlatent")
        for x, lat in zip(case["x"], out["latent"]):
            for i in range(t):
                if lat[i] is None: bad.append("latent value not finite"); continue
                if case["cls"] == "Subset":
                    rows = [ohv[k][i] for k in x]
                    if any(r is None for r in rows): continue
                    want = -sum(_F(r) for r in rows) / len(x)
                else:
                    rows = [ohv[k][i] for k in range(len(xm))]
                    if any(r is None for r in rows): continue
                    want = -sum(Fraction(w) * _F(r) for w, r in zip(x, rows)) / sum(Fraction(w) for w in x)
                if abs(_F(lat[i]) - want) > Fraction(1, 2 ** 30) * (1 + abs(want)): bad.append("OHV latentfn is not minus the (weighted) mean OHV of the selected crosses")
    else:
        if out["ploidy"] != m or out["nlatent"] != t: bad.append("ploidy/nlatent")
        for x, lat in zip(case["x"], out["latent"]):
            for i in range(t):
                if lat[i] is None: bad.append("latent value not finite"); continue
                if kind == "opv":
                    want = best_sum(x, i)
                    if want is not None and _F(lat[i]) != -want: bad.append("OPV latentfn is not -ploidy * sum over blocks of the best block among the selected")
                    if len(runs) == nhap:
                        bf = _dh_best(geno, u, runs, x, i)
                        if bf is not None and bf != -_F(lat[i]):
                            bad.append("brute force: the optimal population value of %d selected individuals is %s the best doubled haploid recombining only at block boundaries among ALL of them"
                                       % (len(x), "below" if bf > -_F(lat[i]) else "above"))
                else:
                    tot = Fraction(0); ok = True
                    for j in range(nhap):
                        per = []
                        for d in x:
                            vs = [H(ph, d, j, i) for ph in range(m)]
                            if any(v is None for v in vs): ok = False; break
                            per.append(max(_F(v) for v in vs))
                        if not ok: break
                        tot += sum(sorted(per)[len(per) - case["nbest"]:])
                    if ok:
                        want = -Fraction(m, case["nbest"]) * tot
                        if abs(_F(lat[i]) - want) > Fraction(1, 2 ** 30) * (1 + abs(want)): bad.append("genotype-builder latentfn is not -(ploidy/nbest) * sum of the nbest best founders per block")
    return _dedup(bad)

def _dedup(bad):
    seen = []
    for b in bad:
        if b not in seen: seen.append(b)
    return seen[:8]

def classify(case, out, clauses):
    """no known finding is left for this property (C18-empty-bin is repaired: its witness is an ordinary case)"""
    return None

def nontrivial(case, out):
    if "exc" in out or not isinstance(out.get("nblk"), list): return False
    return len(case["pos"]) >= 3 and case["nhap"] >= 2 and "hbin" in out and len(set(out["hbin"])) >= 2

def describe(case, out):
    nb = out.get("nblk")
    d = {"kind": case["kind"] + ("/" + case["cls"] if "cls" in case else ""), "nchr": len(case["clen"]),
         "nmarkers": "1-3" if len(case["pos"]) <= 3 else ("4-8" if len(case["pos"]) <= 8 else "9+"),
         "total": ("<nchr" if case["nhap"] < len(case["clen"]) else ("=nchr" if case["nhap"] == len(case["clen"]) else
                   ("=p" if case["nhap"] == len(case["pos"]) else (">p" if case["nhap"] > len(case["pos"]) else "between")))),
         "empty_bin": _empty_bin(case, out) if "exc" not in out else "?",
         "raised": isinstance(nb, dict) or isinstance(out.get("hmat"), dict),
         "styles": "+".join(sorted(set(case.get("styles", [])))),
         "pscale": case.get("pscale", 0), "uscale": case.get("uscale", 0), "route": case.get("route", "-"),
         "session": "session" in case, "phases": len(case["geno"]) if "geno" in case else 0,
         "planted": "planted" in case, "nparent": case.get("nparent", "-"), "uniq": case.get("uniq", "-"),
         "nselected": "-" if case["kind"] not in ("opv", "gb") else "/".join(str(k) for k in sorted({len(x) for x in case["x"]}))}
    if isinstance(nb, list) and "hbin" in out and "nblk" not in case:
        st, sp = _bounds(case["clen"]); tie = False
        for a, b, n in zip(st, sp, nb):
            hb = numpy.linspace(case["pos"][a], case["pos"][b - 1], n + 1)
            tie = tie or any(x == h for x in case["pos"][a:b] for h in hb[1:-1])
        d["marker_on_inner_boundary"] = tie
    return d

def shrink(case, fails):
    """drop individuals / traits, then shorten the selections, while the predicate still fails"""
    import copy
    cur = copy.deepcopy(case)
    if "geno" not in cur: return cur
    while len(cur["geno"][0]) > 1 and cur["kind"] in ("haplomat",):
        t = copy.deepcopy(cur); t["geno"] = [ph[:-1] for ph in t["geno"]]
        if fails(t): cur = t
        else: break
    while len(cur["u"][0]) > 1 and cur["kind"] in ("haplomat",):
        t = copy.deepcopy(cur); t["u"] = [r[:-1] for r in t["u"]]
        if fails(t): cur = t
        else: break
    return cur


def translate(repo, gen_dir):
    """regenerate Gen/C18_Kernel.v (kernel expressions of haplo.py and of the OHV / OPV / genotype-builder problem modules) from the
    current source; fail closed"""
    from translate import c18_kernel
    return [c18_kernel.translate(repo, gen_dir)]
