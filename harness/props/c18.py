"""C18 — haplotype blocks: correspondence between Model/C18_Haplo.v and pybrops.core.util.haplo
(nhaploblk_chrom, haplobin, haplobin_bounds, haplomat), the _calc_haplomat copies, _calc_xmap, _calc_ohvmat and
latentfn of the OHV / OPV / genotype-builder problems (OHV problems built through the selection protocols),
plus the independent predicate."""
import math, itertools
from fractions import Fraction
import numpy
import coqemit as E

ID = "C18"
PROPS = "Props/C18.v"
IMPORTS = "From Coq Require Import PrimFloat.\nFrom PV Require Import Lib.Common Model.C18_Haplo."
SHARD = 40
LEVEL_TEXT = ("Coq theorems over an executable model of the haplotype-block code that is generic in the number type of the genetic "
              "positions (instances: binary64 as executed, bit exact incl. numpy.linspace's operation order; exact rationals): "
              "greedy apportionment = one count per chromosome, each >= 1, summing to the requested total (all inputs, all number types); "
              "on sorted chromosomes tiling the marker array every marker gets exactly one label inside its chromosome's label range, "
              "labels are non-decreasing and, when no chromosome has fewer markers than blocks, every requested label is used — proved for "
              "any total preorder and any boundary list with proper end points, discharged unconditionally for Q and, via Flocq, for "
              "binary64 under a decidable hypothesis that every shard evaluates; the clauses 'exactly the requested total' and 'finite for "
              "every valid input' hold at FULL strength for every number type (whenever every marker is labelled the labels are exactly "
              "0..nhaploblk-1 and haplobin_bounds yields exactly nhaploblk runs; whenever haplomat/_calc_haplomat succeeds every entry is "
              "written and block values add up to the copy's additive value; the call does succeed on every valid input over Q and, under "
              "the decidable hypothesis, in binary64) — this rests on the repair pass of haplobin (defect C18-empty-bin, repaired), which is "
              "also proved to return exactly the former equal-width labels whenever no equal-width bin is empty; the FORMER code is kept in "
              "Coq as a regression witness (old_* refuted theorems); haplobin_bounds is a run-length encoding (partition into non-empty "
              "runs, decode = labels, adjacent runs differ); block values over any partition add up to the copy's additive value; OHV/OPV = "
              "ploidy * sum over blocks of the best designated copy (upper bound, attained), >= every block-boundary recombinant, for every "
              "cross of the (proved valid) cross map of every problem that is built. The model is evaluated inside Coq (vm_compute) against "
              "the implementation's outputs on generated layouts.")
LEVEL_NOTE = ("trusted: Coq kernel + vm_compute, PrimFloat primitives + FloatAxioms specs, classical reals via Flocq (binary64 order only); "
              "numpy.empty is instrumented by the driver to return NaN/-1 filled arrays so that never-written entries are observable (modelled "
              "as None); block values, OHV/OPV sums are compared as exact rationals on dyadic grids (BLAS/numpy summation order not modelled); "
              "real/integer/binary OHV latentfn and the genotype-builder latentfn within 2^-30 of the exact rational; finiteness of the binary64 "
              "linspace boundaries is checked per case, not proved in general; theorems are about the Gallina model, the tie to the code is "
              "differential on generated inputs")
TECHNIQUE = "Coq proof over an executable model (generic order; PrimFloat/Flocq and Q instances); in-Coq vm_compute correspondence"
RULE = ("case = (kind helpers|haplomat|ohv{Subset,Real,Integer,Binary via the selection protocols}|opv|gb, marker layout = chromosome "
        "lengths + genetic positions, requested block total, genotypes, effects, parent tuples / selections, chunk size); layouts from one "
        "PRNG: per chromosome one of even grid (markers exactly on bin boundaries), random grid with duplicates, cluster + far marker (empty "
        "equal-width bin: the repair pass of haplobin moves markers), all-equal/duplicated positions, single marker, off-grid floats (j/7, j/3, random) where linspace rounding decides; "
        "1-4 chromosomes, totals from #chr to #markers plus totals below #chr and above #markers, explicit per-chromosome counts, a few "
        "unsorted layouts; non-trivial = >= 3 markers, >= 2 blocks requested, >= 2 labels used; "
        "distinct by SHA-256 of the case")
TRUSTED = ["numpy.empty instrumented (driver only) so that unwritten entries are visible as NaN / -1",
           "binary64 sums of 0/1 genotypes times effects k/2^8 (|k/2^8| <= 16) are exact: compared as exact rationals",
           "numpy.linspace = arange(0,num)*((stop-start)/div)+start with the last point replaced by stop (numpy 2.x function_base.linspace)",
           "numpy add.reduce over fewer than 8 contiguous float64 is a left-to-right loop",
           "latentfn of the real/integer/binary OHV problems and of the genotype builder are compared within 2^-30 of the exact rational"]
ASSUMPTIONS = ["genetic positions sorted within chromosomes, chromosome groups tile 0..p (as group_vrnt() produces)",
               "alleles in {0,1} (int8), effects finite", "fewer than 8 chromosomes when positions are off the dyadic grid"]

ERRMAP = {"ValueError": "EValue", "RuntimeError": "EOther", "IndexError": "EIndex", "TypeError": "EType"}
FMT_BUG = True   # nhaploblk_chrom: "... (nchr = {1})".format(nchr) raises IndexError instead of the intended ValueError

# ------------------------------------------------------------------ generators
def _chrom_positions(rng, ln, style):
    """positions of one chromosome (sorted list of floats) in the given style"""
    if ln == 1 or style == "single":
        return [rng.choice([0.0, 0.5, -1.25, 3.0])] * ln if ln == 1 else None
    off = rng.choice([0, 0, 0, 1, -3, 5, -1]) * rng.choice([1.0, 0.5, 0.25])
    if style == "even":
        w = rng.choice([1, 2, 3, 4, 6, 8, 12]) * rng.choice([1.0, 0.5, 0.125, 1 / 64])
        return [off + j * w for j in range(ln)]
    if style == "grid":
        L = rng.choice([4, 6, 8, 12, 16, 24, 60])
        sc = rng.choice([1.0, 0.25, 1 / 64])
        xs = sorted(rng.randint(0, L) for _ in range(ln))
        if rng.random() < 0.5: xs[0], xs[-1] = 0, L
        return [off + x * sc for x in sorted(xs)]
    if style == "cluster":
        far = rng.choice([1.0, 2.0, 64.0])
        xs = sorted(rng.randint(0, 3) / 64 for _ in range(ln - 1)) + [far]
        if rng.random() < 0.3: xs = [0.0] + [far - rng.randint(0, 3) / 64 for _ in range(ln - 1)]
        return [off + x for x in sorted(xs)]
    if style == "dup":
        v = off + rng.randint(0, 8) / 8
        xs = [v] * ln
        if rng.random() < 0.6:                                     # two or three distinct values
            for j in range(rng.randint(1, ln - 1), ln): xs[j] = v + 1.0
            if ln > 2 and rng.random() < 0.5: xs[-1] = v + 2.0
        return xs
    if style == "frac":                                            # off the dyadic grid: linspace rounding decides
        d = rng.choice([3, 5, 6, 7, 9, 10, 11, 13])
        if rng.random() < 0.5: xs = sorted(rng.randint(0, 2 * d) / d for _ in range(ln))
        else: xs = [j / d for j in range(ln)]
        sc = rng.choice([1.0, 0.1, 3.0])
        return [off + x * sc for x in sorted(xs)]
    if style == "rand":
        sc = rng.choice([1.0, 2.5, 100.0, 1e-3])
        return sorted(off + rng.random() * sc for _ in range(ln))
    raise ValueError(style)

def _layout(rng, exact_only=False, max_chr=4, max_len=8):
    nchr = rng.choice([1, 1, 2, 2, 3, max_chr])
    styles_e = ["even", "even", "grid", "grid", "grid", "cluster", "dup"]
    styles = styles_e if exact_only else styles_e + ["frac", "frac", "rand"]
    pos, clen, st = [], [], []
    for _ in range(nchr):
        ln = rng.choice([1, 2, 3, 3, 4, 5, 6, max_len]) if rng.random() < 0.85 else rng.randint(1, max_len)
        s = rng.choice(styles)
        if ln == 1: s = "single"
        pos += _chrom_positions(rng, ln, s); clen.append(ln); st.append(s)
    return pos, clen, st

def _pick_nhap(rng, nchr, p):
    r = rng.random()
    if r < 0.06: return max(0, nchr - 1)                           # fewer blocks than chromosomes: raises
    if r < 0.10: return p + rng.randint(1, 2)                      # more blocks than markers
    if r < 0.30: return nchr
    if r < 0.40: return p
    if r < 0.75: return min(p, nchr + rng.randint(0, 2))
    return rng.randint(nchr, max(nchr, p))

def _geno(rng, m, n, p):
    k = rng.random()
    if k < 0.1: return [[[1] * p for _ in range(n)] for _ in range(m)]
    return [[[rng.randint(0, 1) for _ in range(p)] for _ in range(n)] for _ in range(m)]

def _effects(rng, p, t):
    k = rng.random()
    if k < 0.1: return [[1.0] * t for _ in range(p)]
    return [[rng.randint(-16 * 256, 16 * 256) / 256 if rng.random() < 0.8 else float(rng.randint(-3, 3)) for _ in range(t)] for _ in range(p)]

def _one(rng, kind):
    exact = kind != "helpers" or rng.random() < 0.35
    pos, clen, st = _layout(rng, exact_only=(kind != "helpers" and rng.random() < 0.7))
    p, nchr = len(pos), len(clen)
    case = {"kind": kind, "pos": pos, "clen": clen, "styles": st, "nhap": _pick_nhap(rng, nchr, p)}
    if kind == "helpers":
        r = rng.random()
        if r < 0.35:                                               # explicit per-chromosome block numbers for haplobin
            case["nblk"] = [rng.randint(1, max(1, min(ln + 1, 5))) for ln in clen]
        if r > 0.93 and p >= 3:                                    # unsorted positions: markers may stay unlabelled
            q = list(pos); i = rng.randrange(p); j = rng.randrange(p); q[i], q[j] = q[j], q[i]
            case["pos"] = q; case["unsorted"] = True
        return case
    m = rng.choice([1, 2, 2, 2, 3]); n = rng.choice([1, 2, 3, 4, 5]); t = rng.choice([1, 1, 2, 3])
    case.update({"geno": _geno(rng, m, n, p), "u": _effects(rng, p, t)})
    if kind == "ohv":
        case["cls"] = rng.choice(["Subset", "Subset", "Real", "Integer", "Binary"])
        case["nparent"] = rng.choice([1, 2, 2, 2, 3]); case["uniq"] = rng.random() < 0.5
        if case["uniq"] and case["nparent"] > n: case["nparent"] = n
        case["mem"] = rng.choice([None, 1, 2, 3, 1024])
        ncfg = len(_xmap(n, case["nparent"], case["uniq"]))
        ncross = rng.choice([1, 2, 3])
        if case["cls"] == "Subset": ncross = min(ncross, ncfg)
        if case["cls"] == "Subset": case["x"] = [[rng.randrange(ncfg) for _ in range(ncross)] for _ in range(2)]
        elif case["cls"] == "Real": case["x"] = [[rng.randint(0, 8) / 4 + 0.25 for _ in range(ncfg)] for _ in range(2)]
        elif case["cls"] == "Integer": case["x"] = [[rng.randint(0, 3) + (1 if i == 0 else 0) for i in range(ncfg)] for _ in range(2)]
        else: case["x"] = [[(1 if i == 0 else rng.randint(0, 1)) for i in range(ncfg)] for _ in range(2)]
        case["ncross"] = ncross
    elif kind == "opv":
        case["x"] = [[rng.randrange(n) for _ in range(rng.randint(1, 4))] for _ in range(3)]
    elif kind == "gb":
        k = rng.randint(1, 4)
        case["x"] = [[rng.randrange(n) for _ in range(k)] for _ in range(2)]
        case["nbest"] = rng.randint(1, min(k, n))
    return case

def _xmap(n, k, uniq):
    return [list(c) for c in (itertools.combinations(range(n), k) if uniq else itertools.combinations_with_replacement(range(n), k))]

WITNESS = {"kind": "haplomat", "pos": [0.0, 1 / 64, 2 / 64, 3 / 64, 1.0], "clen": [5], "nhap": 3, "styles": ["cluster"],
           "geno": [[[1, 1, 1, 1, 1], [1, 0, 1, 0, 1]], [[0, 1, 1, 0, 1], [1, 1, 0, 0, 0]]], "u": [[1.0], [2.0], [-1.0], [0.5], [4.0]]}

def gen_cases(rng, tier):
    cases = []
    # fixed corner cases: the baseline fixture, the witness of the (repaired) empty-bin defect, boundary ties, single markers
    fix = {"kind": "helpers", "nhap": 5, "clen": [7, 4, 6], "styles": ["fixture"] * 3,
           "pos": [0.10, 1.35, 1.56, 2.10, 2.15, 2.72, 3.04, -0.49, -0.06, 0.59, 0.81, -0.18, -0.04, 0.24, 0.25, 1.04, 1.63]}
    cases.append(fix)
    cases.append(dict(WITNESS))
    cases.append({"kind": "helpers", "nhap": 3, "clen": [5], "styles": ["cluster"], "pos": WITNESS["pos"]})
    cases.append({"kind": "helpers", "nhap": 4, "clen": [5], "styles": ["even"], "pos": [0.0, 1.0, 2.0, 3.0, 4.0]})
    cases.append({"kind": "helpers", "nhap": 2, "clen": [3], "styles": ["even"], "pos": [0.0, 0.5, 1.0]})
    cases.append({"kind": "helpers", "nhap": 3, "clen": [1, 1, 1], "styles": ["single"] * 3, "pos": [1.0, 2.0, 3.0]})
    cases.append({"kind": "helpers", "nhap": 4, "clen": [1, 2], "styles": ["single", "even"], "pos": [1.0, 2.0, 2.0]})
    cases.append({"kind": "helpers", "nhap": 6, "clen": [7], "styles": ["frac"], "pos": [j / 6 for j in range(7)]})
    cases.append({"kind": "helpers", "nhap": 7, "clen": [8], "styles": ["frac"], "pos": [j / 7 for j in range(8)]})
    cases.append({"kind": "helpers", "nhap": 5, "clen": [4, 4], "styles": ["even", "even"], "pos": [0.0, 1.0, 2.0, 3.0, 0.0, 1.0, 2.0, 3.0]})
    # empty equal-width bins: jump at the start, in the middle, several empty bins, zero-length chromosome, second chromosome
    cases.append({"kind": "helpers", "nhap": 3, "clen": [5], "styles": ["cluster"], "pos": [0.0, 1.0 - 3 / 64, 1.0 - 2 / 64, 1.0 - 1 / 64, 1.0]})
    cases.append({"kind": "helpers", "nhap": 5, "clen": [6], "styles": ["cluster"], "pos": [0.0, 1 / 64, 2 / 64, 3 / 64, 3 / 64, 64.0]})
    cases.append({"kind": "helpers", "nhap": 6, "clen": [6], "styles": ["cluster"], "pos": [0.0, 0.0, 1 / 64, 32.0, 64.0, 64.0]})
    cases.append({"kind": "helpers", "nhap": 5, "clen": [4, 3], "styles": ["dup", "dup"], "pos": [1.0, 1.0, 1.0, 1.0, 5.0, 5.0, 5.0], "nblk": [3, 2]})
    cases.append({"kind": "helpers", "nhap": 5, "clen": [2, 5], "styles": ["even", "cluster"], "pos": [0.0, 1.0, 0.0, 1 / 64, 2 / 64, 3 / 64, 1.0], "nblk": [1, 4]})
    cases.append({"kind": "helpers", "nhap": 5, "clen": [2, 2], "styles": ["even", "even"], "pos": [0.0, 1.0, 0.0, 1.0], "nblk": [4, 1]})
    # invalid (unsorted) layouts in which every marker is labelled but labels fall: the pass never lets a label fall
    cases.append({"kind": "helpers", "nhap": 3, "clen": [5], "styles": ["unsorted"], "pos": [0.0, 1.5, 0.5, 3.0, 3.0], "unsorted": True})
    cases.append({"kind": "helpers", "nhap": 5, "clen": [2, 5], "styles": ["even", "unsorted"], "pos": [0.0, 1.0, 0.0, 2.5, 1.5, 0.5, 3.0], "unsorted": True})
    w2 = dict(WITNESS); w2["kind"] = "opv"; w2["x"] = [[0, 1], [1], [0, 0]]
    cases.append(w2)
    w3 = dict(WITNESS); w3.update({"kind": "ohv", "cls": "Subset", "nparent": 2, "uniq": True, "mem": None, "ncross": 1, "x": [[0], [0]]})
    cases.append(w3)
    N = {"helpers": 150, "haplomat": 40, "ohv": 60, "opv": 30, "gb": 25} if tier == "quick" else \
        {"helpers": 5000, "haplomat": 1200, "ohv": 2000, "opv": 900, "gb": 700}
    for kind, n in N.items():
        for _ in range(n):
            cases.append(_one(rng, kind))
    return cases

# ------------------------------------------------------------------ implementation driver
def _bounds(clen):
    st, sp, a = [], [], 0
    for l in clen: st.append(a); a += l; sp.append(a)
    return st, sp

class _Instrumented:
    """numpy.empty -> arrays filled with NaN (floats) / -1 (ints): entries the code never writes become observable"""
    def __enter__(self):
        self.orig = numpy.empty
        orig = self.orig
        def empty(shape, dtype=float, *a, **k):
            arr = orig(shape, dtype, *a, **k)
            if arr.dtype.kind == "f": arr.fill(numpy.nan)
            elif arr.dtype.kind in "iu": arr.fill(-1)
            return arr
        numpy.empty = empty
    def __exit__(self, *a):
        numpy.empty = self.orig

def _try(f):
    try: return f()
    except Exception as e: return {"exc": type(e).__name__, "msg": str(e)[:200]}

def _fl(a):
    """float array -> nested lists of hex strings; NaN (never written) -> None"""
    a = numpy.asarray(a, dtype=float)
    if a.ndim == 0:
        x = float(a); return None if math.isnan(x) else x.hex()
    return [_fl(x) for x in a]

def _pg_gp(case):
    from pybrops.popgen.gmat.DensePhasedGenotypeMatrix import DensePhasedGenotypeMatrix
    from pybrops.model.gmod.DenseAdditiveLinearGenomicModel import DenseAdditiveLinearGenomicModel
    mat = numpy.array(case["geno"], dtype="int8")
    p = mat.shape[2]; t = len(case["u"][0])
    chrgrp = numpy.repeat(numpy.arange(1, len(case["clen"]) + 1), case["clen"])
    pg = DensePhasedGenotypeMatrix(mat, vrnt_chrgrp=chrgrp, vrnt_phypos=numpy.arange(1, p + 1), vrnt_genpos=numpy.array(case["pos"], dtype=float))
    pg.group_vrnt()
    gp = DenseAdditiveLinearGenomicModel(beta=numpy.zeros((1, t)), u_misc=None, u_a=numpy.array(case["u"], dtype=float),
                                         trait=numpy.array(["t%d" % i for i in range(t)], dtype=object))
    return pg, gp

def run_impl(case):
    from pybrops.core.util import haplo
    with _Instrumented():
        return _run(case, haplo)

def _run(case, haplo):
    pos = numpy.array(case["pos"], dtype=float)
    st, sp = _bounds(case["clen"]); stix, spix = numpy.array(st), numpy.array(sp)
    nhap = case["nhap"]; out = {}
    nb = _try(lambda: haplo.nhaploblk_chrom(nhap, pos, stix, spix))
    out["nblk"] = nb if isinstance(nb, dict) else [int(x) for x in nb]
    use = case.get("nblk", None if isinstance(nb, dict) else out["nblk"])
    if use is not None:
        hb = haplo.haplobin(numpy.array(use), pos, stix, spix)
        out["hbin"] = [int(x) for x in hb]
        b = haplo.haplobin_bounds(hb)
        out["bounds"] = [[int(x) for x in a] for a in b]
    kind = case["kind"]
    if kind == "helpers":
        return out
    geno = numpy.array(case["geno"], dtype="int8"); u = numpy.array(case["u"], dtype=float)
    before = (geno.copy(), u.copy(), pos.copy())
    if kind == "haplomat":
        h = _try(lambda: haplo.haplomat(nhap, geno, pos, stix, spix, numpy.array(case["clen"]), u))
        out["hmat"] = h if isinstance(h, dict) else _fl(h)
        out["unchanged"] = bool(numpy.array_equal(geno, before[0]) and numpy.array_equal(u, before[1]) and numpy.array_equal(pos, before[2]))
        return out
    pg, gp = _pg_gp(case)
    n = geno.shape[1]; t = u.shape[1]
    if kind == "ohv":
        import pybrops.breed.prot.sel.OptimalHaploidValueSelection as S
        import pybrops.breed.prot.sel.prob.OptimalHaploidValueSelectionProblem as P
        pcls = getattr(P, "OptimalHaploidValue%sSelectionProblem" % case["cls"])
        h = _try(lambda: pcls._calc_haplomat(pg, gp, nhap))
        out["hmat"] = h if isinstance(h, dict) else _fl(h)
        def build():
            sel = getattr(S, "OptimalHaploidValue%sSelection" % case["cls"])(
                ntrait=t, nhaploblk=nhap, unique_parents=case["uniq"], ncross=case["ncross"], nparent=case["nparent"],
                nmating=1, nprogeny=1, nobj=t)
            return sel.problem(pg, None, None, None, gp, 0, 1)
        prob = _try(build)
        if isinstance(prob, dict):
            out["prob"] = prob; return out
        out["ohvmat"] = _fl(prob.ohvmat)
        out["xmap"] = numpy.asarray(prob.decn_space_xmap).tolist()
        out["nlatent"] = int(prob.nlatent)
        if not isinstance(h, dict):
            o2 = _try(lambda: pcls._calc_ohvmat(h.shape[0], h, numpy.asarray(prob.decn_space_xmap), case["mem"]))
            out["ohvmat_mem"] = o2 if isinstance(o2, dict) else _fl(o2)
        dt = {"Subset": int, "Real": float, "Integer": int, "Binary": int}[case["cls"]]
        out["latent"] = [_fl(prob.latentfn(numpy.array(x, dtype=dt))) for x in case["x"]]
        return out
    if kind == "opv":
        from pybrops.breed.prot.sel.prob.OptimalPopulationValueSelectionProblem import OptimalPopulationValueSubsetSelectionProblem as C
        prob = _try(lambda: C.from_pgmat_gpmod(nhap, pg, gp, ndecn=1, decn_space=numpy.arange(n), decn_space_lower=numpy.repeat(0, 1),
                                               decn_space_upper=numpy.repeat(n - 1, 1), nobj=t))
        if isinstance(prob, dict):
            out["hmat"] = prob; return out
        out["hmat"] = _fl(prob.haplomat); out["ploidy"] = int(prob.ploidy); out["nlatent"] = int(prob.nlatent)
        out["latent"] = [_fl(prob.latentfn(numpy.array(x, dtype=int))) for x in case["x"]]
        return out
    if kind == "gb":
        from pybrops.breed.prot.sel.prob.GenotypeBuilderSelectionProblem import GenotypeBuilderSubsetSelectionProblem as C
        k = min(len(case["x"][0]), n)
        prob = _try(lambda: C.from_pgmat_gpmod(pg, gp, nhap, case["nbest"], ndecn=k, decn_space=numpy.arange(n),
                                               decn_space_lower=numpy.repeat(0, k), decn_space_upper=numpy.repeat(n - 1, k), nobj=t))
        if isinstance(prob, dict):
            out["hmat"] = prob; return out
        out["hmat"] = _fl(prob.haplomat); out["ploidy"] = int(prob.ploidy); out["nlatent"] = int(prob.nlatent)
        out["latent"] = [_fl(prob.latentfn(numpy.array(x, dtype=int))) for x in case["x"]]
        return out
    raise ValueError(kind)

# ------------------------------------------------------------------ Coq emitter
def _fh(h): return float.fromhex(h)
def _oq(h): return "None" if h is None else "(Some %s)" % E.q(Fraction(_fh(h)))
def _onat(x): return "None" if x < 0 else "(Some %s)" % E.nat(x)
def _hm(h, ekind):
    if isinstance(h, dict):
        return "(Err %s)" % ERRMAP.get(h["exc"], "ERecursion")
    return "(Ok %s)" % E.lst(h, lambda a: E.lst(a, lambda b: E.lst(b, lambda c: E.lst(c, _oq))))

def _linspace_exact(lo, hi, n):
    """is numpy.linspace(lo, hi, n+1) equal to the exact rational boundaries?"""
    hb = numpy.linspace(lo, hi, n + 1)
    return all(Fraction(float(hb[j])) == Fraction(lo) + Fraction(j, n) * (Fraction(hi) - Fraction(lo)) for j in range(n + 1))

def _apportion_exact(nhap, pos, st, sp):
    """exact-arithmetic greedy apportionment; None when a tie (exact or near) makes the binary64 choice rounding-dependent"""
    gl = [Fraction(pos[b - 1]) - Fraction(pos[a]) for a, b in zip(st, sp)]
    s = sum(gl)
    if s == 0: return None
    ideal = [Fraction(nhap) * g / s for g in gl]
    cur = [1] * len(gl)
    for _ in range(nhap - len(gl)):
        d = [c - i for c, i in zip(cur, ideal)]
        mn = min(d); ix = d.index(mn)
        near = [j for j, x in enumerate(d) if j != ix and abs(x - mn) < Fraction(1, 10 ** 6)]
        # a tie between chromosomes of identical length and count is an exact tie in binary64 too: the first index wins
        if any(not (gl[j] == gl[ix] and cur[j] == cur[ix]) for j in near): return None
        cur[ix] += 1
    return cur

def emit_case(case, out):
    if "exc" in out: return "false"
    nat, fh = E.nat, E.fhex
    pos = case["pos"]; st, sp = _bounds(case["clen"]); nhap = case["nhap"]
    GP = E.lst(pos, fh); ST = E.lst(st, nat); SP = E.lst(sp, nat)
    parts = []
    nb = out["nblk"]
    NB = "(Err %s)" % ERRMAP.get(nb["exc"], "ERecursion") if isinstance(nb, dict) else "(Ok %s)" % E.lst(nb, nat)
    parts.append("res_eqb natl_eqb (nhaploblk_chrom fops %s %s %s %s) %s" % (nat(nhap), GP, ST, SP, NB))
    use = case.get("nblk", None if isinstance(nb, dict) else nb)
    if not isinstance(nb, dict) and len(pos) and all(math.isfinite(x) for x in pos):
        ex = _apportion_exact(nhap, pos, st, sp)
        if ex is not None:
            parts.append("res_eqb natl_eqb (nhaploblk_chrom qops %s %s %s %s) %s" % (nat(nhap), E.lst(pos, E.q), ST, SP, NB))
    if use is not None:
        U = E.lst(use, nat)
        if case.get("unsorted"):
            # invalid layout: a marker may stay unlabelled; that label and the later ones of the chromosome then depend on
            # what numpy.empty found (model: None) and are not compared
            HB = E.lst([max(x, 0) for x in out["hbin"]], nat)
            cmp_ = "lab_agree (haplobin %s %s %s %s %s) %s"
        else:
            HB = E.lst(out["hbin"], _onat)
            cmp_ = "list_eqb (opt_eqb Nat.eqb) (haplobin %s %s %s %s %s) %s"
        parts.append(cmp_ % ("fops", U, GP, ST, SP, HB))
        if not case.get("unsorted"):                               # the hypothesis of the float-instance theorems, checked per case
            parts.append("lin_hyp_f %s %s" % (U, E.lst([pos[a:b] for a, b in zip(st, sp)], lambda c: E.lst(c, fh))))
        if all(_linspace_exact(pos[a], pos[b - 1], k) for k, a, b in zip(use, st, sp)):
            parts.append(cmp_ % ("qops", U, E.lst(pos, E.q), ST, SP, HB))
        if all(x >= 0 for x in out["hbin"]):
            b = out["bounds"]
            parts.append("res_eqb bounds_eqb (haplobin_bounds %s) (Ok (%s, %s, %s))" % (E.lst(out["hbin"], nat), E.lst(b[0], nat), E.lst(b[1], nat), E.lst(b[2], nat)))
    kind = case["kind"]
    if kind == "helpers":
        return "(" + "\n   && ".join(parts) + ")"
    geno = case["geno"]; u = case["u"]; t = len(u[0]); m = len(geno)
    G = E.lst3(geno, E.z); U_ = E.lst2(u, lambda x: E.q(Fraction(x))); CL = E.lst(case["clen"], nat)
    e1, e2 = ("EValue", "EValue") if kind == "ohv" else ("EOther", "EOther")
    HM = "(calc_haplomat fops %s %s %s %s %s %s %s %s %s %s)" % (e1, e2, nat(nhap), G, GP, ST, SP, CL, U_, nat(t))
    parts.append("res_eqb hmat_eqb %s %s" % (HM, _hm(out["hmat"], kind)))
    if kind == "haplomat" or isinstance(out["hmat"], dict) or "prob" in out:
        if kind != "haplomat" and not isinstance(out["hmat"], dict): return "false"
        return "(" + "\n   && ".join(parts) + ")"
    H = "(match %s with Ok h => h | Err _ => [] end)" % HM
    L2 = lambda rows: E.lst(rows, lambda r: E.lst(r, _oq))
    if kind == "ohv":
        n = len(geno[0])
        X = "(calc_xmap %s %s %s)" % (nat(n), nat(case["nparent"]), E.b(case["uniq"]))
        parts.append("natll_eqb %s %s" % (X, E.lst2(out["xmap"], nat)))
        OHV = "(calc_ohvmat %s %s %s %s %s)" % (E.z(m), nat(nhap), nat(t), H, X)
        parts.append("oqll_agree %s %s" % (OHV, L2(out["ohvmat"])))
        if "ohvmat_mem" in out:
            if isinstance(out["ohvmat_mem"], dict): return "false"
            parts.append("oqll_agree %s %s" % (OHV, L2(out["ohvmat_mem"])))
        parts.append("Nat.eqb %s %s" % (nat(out["nlatent"]), nat(t)))
        for x, lat in zip(case["x"], out["latent"]):
            if case["cls"] == "Subset":
                parts.append("oql_close (ohv_latent %s %s %s) %s" % (nat(t), OHV, E.lst(x, nat), E.lst(lat, _oq)))
            else:
                parts.append("oql_close (ohv_latent_w %s %s %s) %s" % (nat(t), OHV, E.lst(x, lambda v: E.q(Fraction(v))), E.lst(lat, _oq)))
    elif kind == "opv":
        parts.append("Nat.eqb %s %s && Nat.eqb %s %s" % (nat(out["ploidy"]), nat(m), nat(out["nlatent"]), nat(t)))
        for x, lat in zip(case["x"], out["latent"]):
            parts.append("oql_agree (opv_latent %s %s %s %s) %s" % (nat(nhap), nat(t), H, E.lst(x, nat), E.lst(lat, _oq)))
    elif kind == "gb":
        parts.append("Nat.eqb %s %s && Nat.eqb %s %s" % (nat(out["ploidy"]), nat(m), nat(out["nlatent"]), nat(t)))
        for x, lat in zip(case["x"], out["latent"]):
            parts.append("oql_close (gb_latent %s %s %s %s %s) %s" % (nat(nhap), nat(t), nat(case["nbest"]), H, E.lst(x, nat), E.lst(lat, _oq)))
    return "(" + "\n   && ".join(parts) + ")"

# ------------------------------------------------------------------ independent predicate
def _ref_labels(pos, st, sp, nblk):
    """equal-width bins over each chromosome's span, closed at both ends, the later bin wins a tie (-1: no bin holds the marker)"""
    lab, k = [], 0
    for a, b, n in zip(st, sp, nblk):
        hb = numpy.linspace(pos[a], pos[b - 1], n + 1)
        for x in pos[a:b]:
            js = [j for j in range(n) if hb[j] <= x <= hb[j + 1]]
            lab.append(k + js[-1] if js else -1)
        k += n
    return lab

def _ref_spread(raw, st, sp, nblk):
    """the property's definition of the block labels, written in closed form (not the loop of the implementation): start from
    the equal-width labels; a label may exceed its predecessor's by at most one (running minimum of label - index), and a
    marker's label is at least (last label of the chromosome) - (markers that follow), at most (first label) + (markers
    that precede).  Identity whenever every equal-width bin of the chromosome holds a marker.  None: depends on an unlabelled marker."""
    ref, k = [], 0
    for a, b, n in zip(st, sp, nblk):
        r = raw[a:b]; m = b - a
        good = next((i for i, x in enumerate(r) if x < 0), m)     # labels before the first unlabelled marker are determined
        if good:
            v = numpy.array(r[:good]); ix = numpy.arange(good)
            f = ix + numpy.minimum.accumulate(v - ix)
            o = numpy.minimum(numpy.maximum(f, (k + n - m) + ix), k + ix)
            ref += [int(x) for x in o]
        ref += [None] * (m - good)
        k += n
    return ref

def _empty_bin(case, out):
    """clustered positions: after equal-width binning some label 0..nhaploblk-1 is carried by no marker (the repair pass acts)"""
    nb = out.get("nblk")
    if not isinstance(nb, list) or "nblk" in case: return False
    st, sp = _bounds(case["clen"])
    if case["nhap"] != sum(nb): return False
    lab = _ref_labels(case["pos"], st, sp, nb)
    return set(range(case["nhap"])) - set(lab) != set()

def _F(h): return Fraction(_fh(h))

def pred(case, out):
    if "exc" in out:
        return ["implementation raised %s: %s" % (out["exc"], out["msg"])]
    bad = []
    pos = case["pos"]; clen = case["clen"]; st, sp = _bounds(clen); nhap = case["nhap"]; nchr = len(clen); p = len(pos)
    nb = out["nblk"]
    valid_sorted = not case.get("unsorted")
    # --- apportionment
    if nhap < nchr:
        # invalid total: the code intends ValueError (its message has a malformed format string, so IndexError escapes)
        if not isinstance(nb, dict): bad.append("nhaploblk < nchr must raise")
    elif isinstance(nb, dict):
        bad.append("nhaploblk_chrom raised %s for a valid total" % nb["exc"])
    else:
        if len(nb) != nchr: bad.append("one block count per chromosome")
        if any(x < 1 for x in nb): bad.append("a chromosome received no block: %r" % nb)
        if sum(nb) != nhap: bad.append("block counts %r do not add up to the requested total %d" % (nb, nhap))
        ex = _apportion_exact(nhap, pos, st, sp) if valid_sorted else None
        if ex is not None and ex != nb: bad.append("apportionment %r differs from the greedy length-proportional one %r" % (nb, ex))
    use = case.get("nblk", None if isinstance(nb, dict) else nb)
    lab = None
    if use is not None:
        lab = out["hbin"]; b = out["bounds"]
        raw = _ref_labels(pos, st, sp, use)
        ref = _ref_spread(raw, st, sp, use)
        if len(lab) != p: bad.append("one label per marker")
        if valid_sorted and any(r is None or x != r for x, r in zip(lab, ref)):
            bad.append("block labels %r differ from the equal-width bins %r with empty bins refilled %r" % (lab, raw, ref))
        if valid_sorted:
            if any(x < 0 for x in lab): bad.append("a marker is assigned to no block")
            if any(lab[i] > lab[i + 1] for i in range(p - 1)): bad.append("labels are not non-decreasing (blocks not contiguous/ordered)")
            k = 0
            for a, e, n in zip(st, sp, use):
                if any(not (k <= x < k + n) for x in lab[a:e]): bad.append("a block crosses a chromosome boundary")
                k += n
            if all(n <= l for n, l in zip(use, clen)) and sorted(set(lab)) != list(range(sum(use))):
                bad.append("%d blocks found, %d requested" % (len(set(lab)), sum(use)))
            k = 0
            for a, e, n in zip(st, sp, use):                       # where no equal-width bin is empty the equal-width labels stand
                if set(raw[a:e]) == set(range(k, k + n)) and lab[a:e] != raw[a:e]:
                    bad.append("labels %r differ from the equal-width bins %r although no bin of the chromosome is empty" % (lab[a:e], raw[a:e]))
                k += n
        # run-length boundaries of whatever labels were produced
        hs, he, hl = b
        if all(x >= 0 for x in lab):
            runs = [[i for i in range(p) if (i == 0 or lab[i] != lab[i - 1])], None]
            runs[1] = runs[0][1:] + [p]
            if hs != runs[0] or he != runs[1]: bad.append("haplobin_bounds start/stop %r/%r are not the run boundaries %r/%r" % (hs, he, runs[0], runs[1]))
            if hl != [e - s for s, e in zip(hs, he)] or any(x < 1 for x in hl): bad.append("haplobin_bounds lengths")
            if hs[0] != 0 or he[-1] != p or hs[1:] != he[:-1]: bad.append("runs do not partition the markers")
    kind = case["kind"]
    if kind == "helpers":
        return _dedup(bad)
    geno = case["geno"]; u = [[Fraction(x) for x in r] for r in case["u"]]
    m, n, t = len(geno), len(geno[0]), len(u[0])
    hm = out["hmat"]
    raises = {"ohv": "ValueError"}.get(kind, "RuntimeError")
    must_raise = nhap < nchr or (isinstance(nb, list) and any(x > l for x, l in zip(nb, clen)))
    if must_raise:
        if not (isinstance(hm, dict) and hm["exc"] == raises): bad.append("haplotype matrix must raise %s for this layout" % raises)
        if kind == "ohv" and "prob" not in out: bad.append("problem construction must raise")
        return _dedup(bad)
    if isinstance(hm, dict):
        bad.append("haplotype matrix raised %s: %s" % (hm["exc"], hm["msg"])); return _dedup(bad)
    if not (len(hm) == m and all(len(a) == n and all(len(b_) == nhap and all(len(c) == t for c in b_) for b_ in a) for a in hm)):
        bad.append("haplotype matrix shape is not (m,n,nhaploblk,t)"); return _dedup(bad)
    runs = list(zip(out["bounds"][0], out["bounds"][1]))
    if len(runs) != nhap: bad.append("%d runs of markers for %d requested blocks" % (len(runs), nhap))
    total = lambda g, i: sum(Fraction(g[j]) * u[j][i] for j in range(p))
    for ph in range(m):
        for ind in range(n):
            g = geno[ph][ind]
            for i in range(t):
                vals = [hm[ph][ind][j][i] for j in range(nhap)]
                for j in range(nhap):
                    if vals[j] is None:
                        bad.append("block value never written (uninitialised memory) at block %d" % j)
                    elif j < len(runs):
                        a, e = runs[j]
                        if _F(vals[j]) != sum(Fraction(g[q]) * u[q][i] for q in range(a, e)): bad.append("block %d value is not genotype . effects over its markers" % j)
                    else: bad.append("block %d written although only %d runs exist" % (j, len(runs)))
                if all(v is not None for v in vals) and sum(_F(v) for v in vals) != total(g, i):
                    bad.append("block values do not add up to the copy's additive value")
    if kind == "haplomat":
        if not out["unchanged"]: bad.append("inputs mutated")
        return _dedup(bad)
    H = lambda ph, ind, j, i: hm[ph][ind][j][i]
    def best_sum(inds, i):
        s = Fraction(0)
        for j in range(nhap):
            vs = [H(ph, d, j, i) for ph in range(m) for d in inds]
            if any(v is None for v in vs): return None
            s += max(_F(v) for v in vs)
        return m * s
    if kind == "ohv":
        if "prob" in out:
            bad.append("problem construction raised %s: %s" % (out["prob"]["exc"], out["prob"]["msg"])); return _dedup(bad)
        xm = out["xmap"]
        if xm != _xmap(n, case["nparent"], case["uniq"]): bad.append("cross map is not the list of %s parent tuples" % ("distinct" if case["uniq"] else "unordered"))
        ohv = out["ohvmat"]
        if len(ohv) != len(xm) or any(len(r) != t for r in ohv): bad.append("ohvmat shape"); return _dedup(bad)
        import random as _r
        rr = _r.Random(len(xm) * 7919 + nhap)
        for s_, par in enumerate(xm):
            for i in range(t):
                want = best_sum(par, i)
                got = ohv[s_][i]
                if got is None: bad.append("optimal haploid value is not finite"); continue
                if want is None: continue
                if _F(got) != want: bad.append("ohvmat[%d][%d] is not ploidy * sum over blocks of the best parental block value" % (s_, i))
                # a doubled haploid recombining only at block boundaries cannot beat it
                if len(runs) == nhap:
                    dh = []
                    for a, e in runs:
                        src = geno[rr.randrange(m)][rr.choice(par)]
                        dh += src[a:e]
                    if m * total(dh, i) > _F(got): bad.append("a block-boundary doubled haploid exceeds the optimal haploid value")
        if "ohvmat_mem" in out and out["ohvmat_mem"] != ohv: bad.append("_calc_ohvmat depends on the memory chunk size")
        if out["nlatent"] != t: bad.append("nlatent")
        for x, lat in zip(case["x"], out["latent"]):
            for i in range(t):
                if lat[i] is None: bad.append("latent value not finite"); continue
                if case["cls"] == "Subset":
                    rows = [ohv[k][i] for k in x]
                    if any(r is None for r in rows): continue
                    want = -sum(_F(r) for r in rows) / len(x)
                else:
                    rows = [ohv[k][i] for k in range(len(xm))]
                    if any(r is None for r in rows): continue
                    want = -sum(Fraction(w) * _F(r) for w, r in zip(x, rows)) / sum(Fraction(w) for w in x)
                if abs(_F(lat[i]) - want) > Fraction(1, 2 ** 30) * (1 + abs(want)): bad.append("OHV latentfn is not minus the (weighted) mean OHV of the selected crosses")
    else:
        if out["ploidy"] != m or out["nlatent"] != t: bad.append("ploidy/nlatent")
        for x, lat in zip(case["x"], out["latent"]):
            for i in range(t):
                if lat[i] is None: bad.append("latent value not finite"); continue
                if kind == "opv":
                    want = best_sum(x, i)
                    if want is not None and _F(lat[i]) != -want: bad.append("OPV latentfn is not -ploidy * sum over blocks of the best block among the selected")
                else:
                    tot = Fraction(0); ok = True
                    for j in range(nhap):
                        per = []
                        for d in x:
                            vs = [H(ph, d, j, i) for ph in range(m)]
                            if any(v is None for v in vs): ok = False; break
                            per.append(max(_F(v) for v in vs))
                        if not ok: break
                        tot += sum(sorted(per)[len(per) - case["nbest"]:])
                    if ok:
                        want = -Fraction(m, case["nbest"]) * tot
                        if abs(_F(lat[i]) - want) > Fraction(1, 2 ** 30) * (1 + abs(want)): bad.append("genotype-builder latentfn is not -(ploidy/nbest) * sum of the nbest best founders per block")
    return _dedup(bad)

def _dedup(bad):
    seen = []
    for b in bad:
        if b not in seen: seen.append(b)
    return seen[:8]

def classify(case, out, clauses):
    """no known finding is left for this property (C18-empty-bin is repaired: its witness is an ordinary case)"""
    return None

def nontrivial(case, out):
    if "exc" in out or not isinstance(out.get("nblk"), list): return False
    return len(case["pos"]) >= 3 and case["nhap"] >= 2 and "hbin" in out and len(set(out["hbin"])) >= 2

def describe(case, out):
    nb = out.get("nblk")
    d = {"kind": case["kind"] + ("/" + case["cls"] if "cls" in case else ""), "nchr": len(case["clen"]),
         "nmarkers": "1-3" if len(case["pos"]) <= 3 else ("4-8" if len(case["pos"]) <= 8 else "9+"),
         "total": ("<nchr" if case["nhap"] < len(case["clen"]) else ("=nchr" if case["nhap"] == len(case["clen"]) else
                   ("=p" if case["nhap"] == len(case["pos"]) else (">p" if case["nhap"] > len(case["pos"]) else "between")))),
         "empty_bin": _empty_bin(case, out) if "exc" not in out else "?",
         "raised": isinstance(nb, dict) or isinstance(out.get("hmat"), dict),
         "styles": "+".join(sorted(set(case.get("styles", []))))}
    if isinstance(nb, list) and "hbin" in out and "nblk" not in case:
        st, sp = _bounds(case["clen"]); tie = False
        for a, b, n in zip(st, sp, nb):
            hb = numpy.linspace(case["pos"][a], case["pos"][b - 1], n + 1)
            tie = tie or any(x == h for x in case["pos"][a:b] for h in hb[1:-1])
        d["marker_on_inner_boundary"] = tie
    return d

def shrink(case, fails):
    """drop individuals / traits, then shorten the selections, while the predicate still fails"""
    import copy
    cur = copy.deepcopy(case)
    if "geno" not in cur: return cur
    while len(cur["geno"][0]) > 1 and cur["kind"] in ("haplomat",):
        t = copy.deepcopy(cur); t["geno"] = [ph[:-1] for ph in t["geno"]]
        if fails(t): cur = t
        else: break
    while len(cur["u"][0]) > 1 and cur["kind"] in ("haplomat",):
        t = copy.deepcopy(cur); t["u"] = [r[:-1] for r in t["u"]]
        if fails(t): cur = t
        else: break
    return cur


def translate(repo, gen_dir):
    """regenerate Gen/C18_Kernel.v (kernel expressions of haplo.py and of the OHV / OPV / genotype-builder problem modules) from the
    current source; fail closed"""
    from translate import c18_kernel
    return [c18_kernel.translate(repo, gen_dir)]
