#!/venv/bin/python
"""Orchestrator: one property check =  regenerate tables -> build Coq obligations -> correspondence
(model evaluated inside Coq against the implementation's outputs) -> independent predicate ->
decision, replay, evidence.     usage: check.py <ID> quick|thorough      check.py <ID> --replay <file>
See DESIGN.md section 2.1 and harness/README.md for the property-module protocol.
"""
import sys, os, json, time, hashlib, random, subprocess, re, importlib, traceback, glob, shutil
HERE = os.path.dirname(os.path.abspath(__file__))
sys.path.insert(0, HERE)
import boot                                            # noqa: E402  (numpy shim + sys.path to /repo)
VERIF = boot.VERIF
COQ = os.path.join(VERIF, "coq")
NPROC = int(os.environ.get("VERIF_JOBS", "16"))

FORBIDDEN = re.compile(r"\bAdmitted\b|\badmit\b|\bAxiom\b|\bParameter\b|\bParameters\b|\bAxioms\b|\bConjecture\b|"
                       r"Unset\s+Guard|bypass_check|type-in-type|impredicative-set|Admit\s+Obligations|"
                       r"Unset\s+Positivity|Unset\s+Universe\s+Checking")
AXIOM_OK = ("PrimFloat.", "Uint63.", "PrimInt63.", "FloatOps.", "FloatAxioms.", "Float", "Sint63.",
            "ClassicalDedekindReals.", "FunctionalExtensionality.", "Classical_Prop.", "Eqdep.", "ClassicalEpsilon.",
            "ProofIrrelevance.", "JMeq.", "ClassicalFacts.", "Classical_Pred_Type.", "ChoiceFacts.", "Epsilon.",
            "ConstructiveEpsilon.", "Raxioms.", "Rdefinitions.", "IndefiniteDescription.", "ClassicalUniqueChoice.",
            "PropExtensionality.", "Coq.", "Flocq.", "Interval.", "Coquelicot.", "mathcomp.", "Reals", "Bignums.")

def sh(cmd, timeout, cwd=None):
    try:
        p = subprocess.run(cmd, shell=True, cwd=cwd, stdout=subprocess.PIPE, stderr=subprocess.STDOUT,
                           timeout=timeout, text=True, errors="replace")
        return p.returncode, p.stdout
    except subprocess.TimeoutExpired as e:
        return 124, "TIMEOUT after %ss: %s\n%s" % (timeout, cmd, (e.stdout or b"").decode("utf8", "replace") if isinstance(e.stdout, bytes) else (e.stdout or ""))

def canon(x):
    return json.dumps(x, sort_keys=True, separators=(",", ":"), default=str)
def sha(x):
    return hashlib.sha256(canon(x).encode()).hexdigest()

# ------------------------------------------------------------------ Coq build
def coq_files():
    out = []
    for d in ("Lib", "Gen", "Model", "Proofs", "Props"):
        out += sorted(glob.glob(os.path.join(COQ, d, "*.v")))
    return [os.path.relpath(f, COQ) for f in out]

def ensure_makefile():
    import fcntl
    with open(os.path.join(COQ, ".buildlock"), "w") as lk:
        fcntl.flock(lk, fcntl.LOCK_EX)
        _ensure_makefile()

def _ensure_makefile():
    files = coq_files()
    proj = "-Q . PV\n-arg -w -arg -notation-overridden,-deprecated-hint-without-locality,-deprecated-syntactic-definition,-ambiguous-paths,-deprecated-instance-without-locality\n" + "\n".join(files) + "\n"
    pj = os.path.join(COQ, "_CoqProject")
    old = open(pj).read() if os.path.exists(pj) else ""
    if old != proj or not os.path.exists(os.path.join(COQ, "Makefile.coq")):
        open(pj, "w").write(proj)
        rc, out = sh("coq_makefile -f _CoqProject -o Makefile.coq", 120, COQ)
        if rc: raise RuntimeError("coq_makefile failed:\n" + out)

def build_target(target, timeout=1500):
    """full .vo build of one target and everything it depends on, under a directory lock"""
    ensure_makefile()
    return sh("flock .buildlock timeout %d make -f Makefile.coq -j%d %s 2>&1 | tail -n 60" % (timeout, NPROC, target), timeout + 60, COQ)

def theorem_names(path):
    src = open(path).read()
    return [(m.group(2), src[:m.start()].count("\n") + 1) for m in re.finditer(r"^\s*(Theorem|Corollary)\s+(\w+)", src, re.M)]

def parse_assumptions(out):
    """Print Assumptions blocks -> (closed_count, {axiom names})"""
    axioms = set()
    closed = out.count("Closed under the global context")
    for blk in re.findall(r"Axioms:\n(.*?)(?=\n\S|\Z)", out, re.S):
        pass
    for m in re.finditer(r"^([A-Za-z_][\w\.']*)\s*:", out, re.M):
        if m.group(1) != "Axioms": axioms.add(m.group(1))
    return closed, sorted(axioms)

def build_props(mod):
    """returns dict(obligations, discharged, failed_theorem, log, axioms, forbidden)"""
    res = {"obligations": 0, "discharged": 0, "failed": None, "log": "", "axioms": [], "forbidden": []}
    props = os.path.join(COQ, mod.PROPS)
    names = theorem_names(props) if os.path.exists(props) else []
    res["obligations"] = len(names)
    res["theorems"] = [n for n, _ in names]
    # forbidden tokens anywhere in the development (comments stripped)
    for f in coq_files():
        txt = re.sub(r"\(\*.*?\*\)", "", open(os.path.join(COQ, f)).read(), flags=re.S)
        for m in FORBIDDEN.finditer(txt):
            res["forbidden"].append("%s: %s" % (f, m.group(0)))
        depth = 0                                   # Variable/Hypothesis/Context outside a Section declares an axiom
        for line in txt.split("\n"):
            if re.match(r"\s*(Section|Module)\s+\w+", line): depth += 1
            elif re.match(r"\s*End\s+\w+\s*\.", line): depth = max(0, depth - 1)
            elif depth == 0 and re.match(r"\s*(Variable|Variables|Hypothesis|Hypotheses|Context)\b", line):
                res["forbidden"].append("%s: %s outside a section" % (f, line.strip()[:40]))
    vo = props[:-2] + ".vo"
    if os.path.exists(vo): os.remove(vo)
    # the property's theorem file and every model/proof file that carries its id (a proof file that Props does not import
    # must still compile: a lemma broken by a change elsewhere is an undischarged obligation, not dead code)
    own = sorted(f[:-2] + ".vo" for f in coq_files() if re.match(r"(Model|Proofs)/%s_\w+\.v$" % re.escape(mod.ID), f))
    rc, out = build_target(" ".join([mod.PROPS[:-2] + ".vo"] + own))
    res["log"] = out[-4000:]
    if rc != 0 or not os.path.exists(vo):
        m = re.search(r'File "\./?([^"]+)", line (\d+)', out)
        failed = "build failed"
        if m:
            f, ln = m.group(1), int(m.group(2))
            failed = "%s line %d" % (f, ln)
            fp = os.path.join(COQ, f)
            if os.path.exists(fp):
                src = open(fp).read().split("\n")[:ln]
                for l in reversed(src):
                    mm = re.match(r"\s*(Theorem|Lemma|Corollary|Example|Definition|Fixpoint)\s+(\w+)", l)
                    if mm: failed += " (%s %s)" % (mm.group(1), mm.group(2)); break
            if os.path.normpath(f) == os.path.normpath(mod.PROPS):
                res["discharged"] = sum(1 for n, l in names if l < ln) - 1 if any(l < ln for n, l in names) else 0
                res["discharged"] = max(res["discharged"], 0)
        res["failed"] = failed
        return res
    # re-run coqc on the (tiny) property file alone to capture Print Assumptions verbatim
    rc2, out2 = sh("coqc -Q . PV -w none %s" % mod.PROPS, 600, COQ)
    if rc2 != 0:
        res["failed"] = "coqc %s failed on re-run" % mod.PROPS; res["log"] = out2[-4000:]; return res
    res["discharged"] = len(names)
    closed, axioms = parse_assumptions(out2)
    res["axioms"] = axioms
    res["closed"] = closed
    res["assumptions_text"] = out2[-6000:]
    res["bad_axioms"] = [a for a in axioms if a.startswith("PV.")]
    return res

# ------------------------------------------------------------------ implementation runs
def _run_one(args):
    modname, case = args
    import signal
    mod = importlib.import_module(modname)
    def _alarm(signum, frame):
        raise TimeoutError("run_impl exceeded CASE_TIMEOUT (a changed loop may not terminate)")
    old = None
    try:
        try:
            old = signal.signal(signal.SIGALRM, _alarm); signal.alarm(int(getattr(mod, "CASE_TIMEOUT", 180)))
        except ValueError:
            old = None                                             # not in the main thread
        return mod.run_impl(case)
    except BaseException as e:                                     # implementation raised: an observable too
        return {"exc": type(e).__name__, "msg": str(e)[:300], "tb": traceback.format_exc()[-1500:]}
    finally:
        try:
            signal.alarm(0)
            if old is not None: signal.signal(signal.SIGALRM, old)
        except ValueError:
            pass

def run_all(mod, cases):
    import multiprocessing as mp
    if getattr(mod, "SERIAL", False) or len(cases) < 8:
        return [_run_one((mod.__name__, c)) for c in cases]
    ctx = mp.get_context("fork")
    with ctx.Pool(min(NPROC, max(1, len(cases) // 4))) as pool:
        return pool.map(_run_one, [(mod.__name__, c) for c in cases], chunksize=max(1, len(cases) // (NPROC * 4)))

# ------------------------------------------------------------------ shards
SHARD_HEAD = """(* generated by harness/check.py — correspondence shard: every entry is `agree (model input) impl_output` *)
From Coq Require Import List ZArith QArith Bool.
From Coq Require String.
Import ListNotations.
%s
Local Open Scope nat_scope.
Fixpoint bad_ix (i : nat) (l : list bool) : list nat :=
  match l with [] => [] | b :: t => if b then bad_ix (S i) t else i :: bad_ix (S i) t end.
"""
def write_shards(mod, items, bdir):
    """items: list of (global index, coq bool expr). returns list of (path, [global indices])"""
    size = getattr(mod, "SHARD", 150)
    shards = []
    for k in range(0, len(items), size):
        part = items[k:k + size]
        path = os.path.join(bdir, "cases_%03d.v" % (k // size))
        with open(path, "w") as f:
            f.write(SHARD_HEAD % mod.IMPORTS)
            for j, (gi, expr) in enumerate(part):
                f.write("Definition r%d : bool := %s.\n" % (j, expr))
            f.write("Definition results : list bool := [%s].\n" % "; ".join("r%d" % j for j in range(len(part))))
            f.write("Definition bad := Eval vm_compute in bad_ix 0 results.\nPrint bad.\n")
        shards.append((path, [gi for gi, _ in part]))
    return shards

def compile_shards(shards, bdir, per_timeout=300):
    """returns (set of disagreeing global indices, list of shard errors)"""
    if not shards: return set(), []
    lst = os.path.join(bdir, "shards.txt")
    open(lst, "w").write("\n".join(p for p, _ in shards) + "\n")
    cmd = ("cat shards.txt | xargs -P %d -I{} sh -c 'timeout %d coqc -Q %s PV -w none {} > {}.out 2>&1; echo $? > {}.rc'"
           % (NPROC, per_timeout, COQ, ))
    sh(cmd, per_timeout * (len(shards) // NPROC + 2), bdir)
    bad, errs = set(), []
    for path, idx in shards:
        rc = open(path + ".rc").read().strip() if os.path.exists(path + ".rc") else "missing"
        out = open(path + ".out").read() if os.path.exists(path + ".out") else ""
        m = re.search(r"bad\s*=\s*(\[.*?\]|nil)\s*:\s*list nat", out, re.S)
        if rc != "0" or not m:
            errs.append({"shard": os.path.basename(path), "rc": rc, "out": out[-1500:]})
            bad.update(idx)
            continue
        body = m.group(1)
        if body != "nil":
            for tok in body.strip("[]").split(";"):
                tok = tok.strip()
                if tok: bad.add(idx[int(tok)])
    return bad, errs

# ------------------------------------------------------------------ main
def load_known(pid):
    out = []
    for p in [os.path.join(VERIF, "known_findings.json")] + sorted(glob.glob(os.path.join(VERIF, "known_findings.d", "*.json"))):
        if os.path.exists(p):
            out += [e for e in json.load(open(p)) if e.get("property") == pid]
    # an entry of known_findings.d with the same id refines (adds the witness case to) the entry of known_findings.json
    byid = {}
    for e in out:
        if e["id"] in byid: byid[e["id"]].update({k: v for k, v in e.items() if k not in byid[e["id"]] or k == "case"})
        else: byid[e["id"]] = dict(e)
    return list(byid.values())

def write_replay(pid, rec):
    d = os.path.join(VERIF, "replays", pid); os.makedirs(d, exist_ok=True)
    rec = dict(rec); rec["property"] = pid
    rec["repo_head"] = sh("git -C %s rev-parse HEAD" % boot.REPO, 20)[1].strip()
    rec["repo_dirty"] = sh("git -C %s status --porcelain -- pybrops | head -20" % boot.REPO, 20)[1]
    path = os.path.join(d, sha(rec)[:16] + ".json")
    rec["cmd"] = "/venv/bin/python %s %s --replay %s" % (os.path.join(HERE, "check.py"), pid, path)
    json.dump(rec, open(path, "w"), indent=1, default=str)
    return path

def trusted_base(mod, pr):
    tb = ["Coq 8.16.1 kernel; vm_compute (used by the correspondence shards and by finite-table theorems); no native_compute",
          "Print Assumptions (verbatim, %s): %s" % (mod.PROPS, (pr.get("assumptions_text") or "").strip()[-2500:]),
          "harness: numpy shim (boot.py), case generators, coqemit.py (Python value -> Coq literal), scripted numpy Generator (rngscript.py)",
          "correspondence is differential evaluation on generated inputs: the theorems are about the Gallina model, "
          "the model is tied to /repo's working tree only on the inputs generated by this run"]
    tb += list(getattr(mod, "TRUSTED", []))
    return tb

def main():
    if len(sys.argv) < 3:
        print(__doc__); sys.exit(2)
    pid = sys.argv[1].upper()
    mod = importlib.import_module("props." + pid.lower())
    t0 = time.time()
    replay_path = None
    if sys.argv[2] == "--replay":
        replay_path = sys.argv[3]; tier = "quick"
    else:
        tier = sys.argv[2]
    tier = os.environ.get("VERIF_TIER", tier) if sys.argv[2] not in ("quick", "thorough") else tier
    seed = int(os.environ.get("VERIF_SEED", "0"))
    boot.check_repo_is_source()
    bdir = os.path.join(VERIF, "build", pid)
    shutil.rmtree(bdir, ignore_errors=True); os.makedirs(bdir, exist_ok=True)
    violations = []            # (kind, replay-record)
    notes = []

    # 1. regenerate translator tables from the current source (fail closed)
    gen_info = []
    if hasattr(mod, "translate") and not replay_path:
        try:
            gen_info = mod.translate(boot.REPO, os.path.join(COQ, "Gen")) or []
        except Exception as e:
            violations.append(("translator", {"kind": "no-failing-input-found", "clause": "translator failed closed: %s" % e,
                                              "theorem_or_shard": "harness translator for %s" % pid, "tb": traceback.format_exc()[-2000:]}))

    # 2. proof obligations
    pr = build_props(mod) if not replay_path else {"obligations": 0, "discharged": 0, "failed": None, "forbidden": [], "bad_axioms": []}
    if not replay_path:
        if pr["failed"]:
            notes.append("proof obligations do not build: " + pr["failed"])
        if pr["forbidden"]:
            pr["failed"] = (pr["failed"] or "") + " forbidden tokens: " + "; ".join(pr["forbidden"][:5])
        if pr.get("bad_axioms"):
            pr["failed"] = (pr["failed"] or "") + " non-allow-listed axioms: " + ", ".join(pr["bad_axioms"])

    # 2b. thorough: independent re-check of the compiled property file and everything it depends on
    if tier == "thorough" and not replay_path and not pr.get("failed"):
        modname = "PV." + mod.PROPS[:-2].replace("/", ".")
        rc, out = sh("timeout 2400 coqchk -silent -o -Q . PV %s 2>&1 | tail -n 400" % modname, 2500, COQ)
        ok = ("Modules were successfully checked" in out) or (rc == 0 and "Axioms" in out)
        ax = re.findall(r"^\s{4}(\S+)\s*$", out, re.M)
        pr["coqchk"] = {"ok": bool(ok), "axioms": sorted(set(ax)),
                        "type_in_type": "type-in-type: <none>" in out, "unsafe_fix": "unsafe (co)fixpoints: <none>" in out,
                        "positivity": "positivity is assumed: <none>" in out}
        if not ok or not (pr["coqchk"]["type_in_type"] and pr["coqchk"]["unsafe_fix"] and pr["coqchk"]["positivity"]) \
           or any(a.startswith("PV.") for a in ax):
            pr["failed"] = "coqchk did not accept %s: %s" % (modname, out[-600:])

    # 3. correspondence
    rng = random.Random("%s/%s/%d" % (pid, tier, seed))
    known = load_known(pid)
    if replay_path:
        rec = json.load(open(replay_path))
        cases = [rec["input"]] if rec.get("input") is not None else []
        corpus_n = 0
    else:
        corpus = []
        for f in sorted(glob.glob(os.path.join(VERIF, "corpus", pid, "*.json"))):
            corpus.append(json.load(open(f)))
        try:
            gen = mod.gen_cases(rng, tier)
        except Exception as e:
            # a generator that refuses to run (typically the fail-closed entry-point audit: the source has a function,
            # method or parameter the module has not classified) means the correspondence is no longer established
            gen = []
            violations.append(("generator", {"kind": "no-failing-input-found",
                                             "clause": "case generation failed closed: %s: %s" % (type(e).__name__, e),
                                             "theorem_or_shard": "case generator / entry-point audit of %s" % pid,
                                             "tb": traceback.format_exc()[-2000:]}))
        cases = corpus + gen
        corpus_n = len(corpus)
    t1 = time.time()
    outs = run_all(mod, cases)
    t_impl = time.time() - t1
    items = []
    emit_errors = []
    for i, (c, o) in enumerate(zip(cases, outs)):
        try:
            e = mod.emit_case(c, o)
        except Exception as ex:                                    # output has a shape the emitter cannot express
            e = "false"; emit_errors.append({"case": i, "err": "%s: %s" % (type(ex).__name__, ex)})
        if e is not None:
            items.append((i, e))
    t1 = time.time()
    shards = write_shards(mod, items, bdir)
    bad, shard_errs = compile_shards(shards, bdir, getattr(mod, "SHARD_TIMEOUT", 300))
    t_coq = time.time() - t1

    # 4. independent predicate on every case (cheap), classification against known findings
    known_ids = {e["id"]: e for e in known if e.get("status") == "known"}
    known_hits = {}
    pred_fail = []
    for i, (c, o) in enumerate(zip(cases, outs)):
        try:
            clauses = mod.pred(c, o)
        except Exception as ex:
            clauses = ["predicate raised %s: %s" % (type(ex).__name__, ex)]
        if clauses:
            fid = mod.classify(c, o, clauses) if hasattr(mod, "classify") else None
            if fid is not None and fid in known_ids:
                known_hits.setdefault(fid, 0); known_hits[fid] += 1
                bad.discard(i)
                continue
            pred_fail.append((i, clauses))
    # disagreement without a predicate failure: may still be a known finding's site (model mirrors intended behaviour)
    for i in sorted(bad):
        if any(i == j for j, _ in pred_fail): continue
        fid = mod.classify(cases[i], outs[i], []) if hasattr(mod, "classify") else None
        if fid is not None and fid in known_ids:
            known_hits.setdefault(fid, 0); known_hits[fid] += 1
            bad.discard(i)

    # known / fixed entries are re-executed on every run
    for e in known:
        if "case" not in e: continue
        o = _run_one((mod.__name__, e["case"]))
        try: cl = mod.pred(e["case"], o)
        except Exception as ex: cl = ["predicate raised %s" % ex]
        if e.get("status") == "known":
            if cl: print("KNOWN-FINDING: property=%s %s [%s]" % (pid, e["what"], e["id"]))
            else: notes.append("known finding %s no longer reproduces" % e["id"])
        elif e.get("status") == "fixed" and cl:
            violations.append(("regression", {"kind": "concrete", "clause": "; ".join(cl), "input": e["case"], "impl_output": o,
                                              "theorem_or_shard": "fixed finding %s returned" % e["id"]}))
    for fid, n in known_hits.items():
        if not any(e["id"] == fid and "case" in e for e in known):
            print("KNOWN-FINDING: property=%s %s [%s] (%d generated cases)" % (pid, known_ids[fid]["what"], fid, n))

    # 5. decision
    concrete = None
    if pred_fail:
        # shrink: prefer the smallest failing case
        pred_fail.sort(key=lambda t: len(canon(cases[t[0]])))
        i, cl = pred_fail[0]
        case = cases[i]
        if hasattr(mod, "shrink"):
            try: case = mod.shrink(case, lambda c: bool(mod.pred(c, _run_one((mod.__name__, c)))))
            except Exception: pass
        o = _run_one((mod.__name__, case))
        concrete = {"kind": "concrete", "clause": "; ".join(mod.pred(case, o) or cl), "input": case, "impl_output": o,
                    "theorem_or_shard": "independent predicate pred_%s; %d failing of %d cases" % (pid, len(pred_fail), len(cases))}
    broken = []
    if pr.get("failed"): broken.append("obligations: " + pr["failed"])
    if bad: broken.append("correspondence: %d of %d cases disagree (first: case %d)" % (len(bad), len(items), min(bad)))
    if shard_errs: broken.append("shards failed to evaluate: " + ", ".join(s["shard"] for s in shard_errs[:4]))
    if concrete is None and (broken or violations) and not replay_path and hasattr(mod, "gen_cases"):
        # search for a failing input with the independent predicate on a fresh, larger batch
        srng = random.Random("%s/search/%d" % (pid, seed))
        try:
            extra = mod.search_cases(srng) if hasattr(mod, "search_cases") else mod.gen_cases(srng, "thorough")
        except Exception:
            extra = []                      # the generator itself failed closed (already recorded above)
        extra = extra[: getattr(mod, "SEARCH_MAX", 4000)]
        eouts = run_all(mod, extra)
        for c, o in zip(extra, eouts):
            try: cl = mod.pred(c, o)
            except Exception as ex: cl = ["predicate raised %s" % ex]
            if cl:
                fid = mod.classify(c, o, cl) if hasattr(mod, "classify") else None
                if fid in known_ids: continue
                concrete = {"kind": "concrete", "clause": "; ".join(cl), "input": c, "impl_output": o,
                            "theorem_or_shard": "found by violation search after: " + " | ".join(broken)}
                break
    exit_code = 0
    if concrete is not None:
        path = write_replay(pid, concrete)
        print("VIOLATION property=%s replay=%s" % (pid, path)); exit_code = 1
    elif broken or violations:
        first = min(bad) if bad else None
        rec = {"kind": "no-failing-input-found", "clause": " | ".join(broken + [v[1]["clause"] for v in violations]),
               "input": cases[first] if first is not None else None,
               "impl_output": outs[first] if first is not None else None,
               "model_expr": dict(items).get(first) if first is not None else None,
               "theorem_or_shard": pr.get("failed") or (shard_errs[0] if shard_errs else "correspondence shard, case %s" % first),
               "build_log": pr.get("log", "")[-1500:]}
        path = write_replay(pid, rec)
        print("VIOLATION property=%s replay=%s no-failing-input-found" % (pid, path)); exit_code = 1
    for kind, rec in violations:
        if rec.get("kind") == "concrete":
            path = write_replay(pid, rec)
            print("VIOLATION property=%s replay=%s" % (pid, path)); exit_code = 1

    # 6. evidence
    if not replay_path:
        seen, nontriv = set(), 0
        hist = {}
        for c, o in zip(cases, outs):
            h = sha(c)
            if h in seen: continue
            seen.add(h)
            try:
                if mod.nontrivial(c, o): nontriv += 1
            except Exception: pass
            if hasattr(mod, "describe"):
                try:
                    for k, v in mod.describe(c, o).items():
                        hist.setdefault(k, {}); hist[k][str(v)] = hist[k].get(str(v), 0) + 1
                except Exception: pass
        samples = [{"input": c, "impl_output": o} for c, o in list(zip(cases, outs))[corpus_n:corpus_n + 2]]
        ev = {"property_id": pid, "tier": tier, "seed": seed, "level": "proof",
              "coverage": {"obligations": pr["obligations"], "discharged": pr["discharged"],
                           "theorems": pr.get("theorems", []),
                           "checker_cmd": "cd /verif/coq && make -f Makefile.coq %s && coqc -Q . PV %s  (then one coqc per correspondence shard under build/%s)" % (mod.PROPS[:-2] + ".vo", mod.PROPS, pid),
                           "trusted_base": trusted_base(mod, pr),
                           "axioms": pr.get("axioms", []), "coqchk": pr.get("coqchk"),
                           "evaluations": len(cases), "evaluated_in_coq": len(items),
                           "distinct_nontrivial": nontriv, "distinct": len(seen),
                           "rule": getattr(mod, "RULE", ""), "samples": json.loads(canon(samples))[:2],
                           "disagreements": len(bad), "predicate_failures": len(pred_fail),
                           "known_finding_hits": known_hits, "corpus_cases": corpus_n,
                           "input_distribution": hist, "regenerated_tables": gen_info,
                           "emit_errors": emit_errors[:5], "notes": notes,
                           "impl_wall_s": round(t_impl, 1), "coq_shard_wall_s": round(t_coq, 1), "shards": len(shards)},
              "assumptions": list(getattr(mod, "ASSUMPTIONS", [])),
              "wall_s": round(time.time() - t0, 1), "violations": 1 if exit_code else 0}
        # evidence describes /repo itself: a run against another tree (VERIF_REPO, mutation self-tests) writes to build/ instead
        evdir = os.path.join(VERIF, "evidence") if os.path.realpath(boot.REPO) == "/repo" else os.path.join(VERIF, "build", pid)
        os.makedirs(evdir, exist_ok=True)
        json.dump(ev, open(os.path.join(evdir, pid + ".json"), "w"), indent=1, default=str)
    print("%s %s: obligations %d/%d, cases %d (in Coq %d), disagreements %d, predicate failures %d, known hits %s, %.0fs -> %s"
          % (pid, tier, pr["discharged"], pr["obligations"], len(cases), len(items), len(bad), len(pred_fail), known_hits,
             time.time() - t0, "OK" if exit_code == 0 else "VIOLATION"))
    sys.exit(exit_code)

if __name__ == "__main__":
    main()
