"""Python values -> Coq literals (text).  Everything the shards contain goes through here."""
from fractions import Fraction
import math

def z(n):
    n = int(n)
    return "(%d)%%Z" % n if n < 0 else "%d%%Z" % n
def nat(n):
    n = int(n); assert 0 <= n < 5000, n
    return "%d%%nat" % n
def b(x):
    return "true" if bool(x) else "false"
def q(x):
    """exact rational literal of a float / int / Fraction (floats are dyadic rationals: exact)."""
    f = x if isinstance(x, Fraction) else Fraction(x)
    return "(%d # %d)%%Q" % (f.numerator, f.denominator)
def fhex(x):
    """binary64 literal, bit exact (Coq parses C99 hex floats)."""
    x = float(x)
    if math.isnan(x): return "PrimFloat.nan"
    if math.isinf(x): return "PrimFloat.infinity" if x > 0 else "PrimFloat.neg_infinity"
    return "(%s)%%float" % x.hex()
def s(x):
    x = str(x)
    assert all(32 <= ord(c) < 127 and c != '"' for c in x), x
    return '"%s"%%string' % x
def lst(xs, f):
    return "[" + "; ".join(f(x) for x in xs) + "]"
def lst2(xss, f):
    return lst(xss, lambda r: lst(r, f))
def lst3(xsss, f):
    return lst(xsss, lambda r: lst2(r, f))
def opt(x, f):
    return "None" if x is None else "(Some %s)" % f(x)
def pair(a, bb):
    return "(%s, %s)" % (a, bb)
def tup(*xs):
    return "(" + ", ".join(xs) + ")"
