"""Scripted random generator: a numpy.random.Generator subclass whose draws are supplied by the
harness, so that the Coq model and the implementation consume *the same* draws.

Every request is logged in ``self.log`` as (method, args-summary).  A request for which no scripted
value is queued raises ScriptExhausted (a harness error, never silently random).
"""
import numpy
from numpy.random import PCG64, Generator

class ScriptExhausted(RuntimeError):
    pass

class Scripted(Generator):
    def __new__(cls, *a, **k):
        return super().__new__(cls, PCG64(0))
    def __init__(self, uniforms=None, perms=None, choices=None, normals=None, integers=None):
        # each is a list of queued answers, popped from the front
        self.q = {"uniform": list(uniforms or []), "perm": list(perms or []),
                  "choice": list(choices or []), "normal": list(normals or []),
                  "integers": list(integers or [])}
        self.log = []
    def _pop(self, kind, what):
        if not self.q[kind]:
            raise ScriptExhausted("no scripted %s left for %s" % (kind, what))
        return self.q[kind].pop(0)
    # ---- uniform / random: queue items are flat lists (or scalars) reshaped to the request
    def uniform(self, low=0.0, high=1.0, size=None):
        self.log.append(("uniform", low, high, size))
        v = self._pop("uniform", size)
        a = numpy.array(v, dtype=float)
        if size is None:
            return float(a.reshape(()))
        return a.reshape(size)
    def random(self, size=None, dtype=numpy.float64, out=None):
        return self.uniform(0.0, 1.0, size)
    # ---- permutations: queue items are index lists
    def shuffle(self, x, axis=0):
        n = len(x)
        self.log.append(("shuffle", n))
        p = self._pop("perm", n)
        assert sorted(p) == list(range(n)), ("bad scripted permutation", p, n)
        x[...] = numpy.array(x)[numpy.array(p, dtype=int)] if n else x
    def permutation(self, x, axis=0):
        if isinstance(x, (int, numpy.integer)):
            x = numpy.arange(x)
        n = len(x)
        self.log.append(("permutation", n))
        p = self._pop("perm", n)
        assert sorted(p) == list(range(n)), ("bad scripted permutation", p, n)
        return numpy.array(x)[numpy.array(p, dtype=int)]
    # ---- choice: queue items are index lists into `a`
    def choice(self, a, size=None, replace=True, p=None, axis=0, shuffle=True):
        arr = numpy.arange(a) if isinstance(a, (int, numpy.integer)) else numpy.asarray(a)
        self.log.append(("choice", len(arr), size, replace))
        ix = self._pop("choice", (len(arr), size, replace))
        if size is None:
            return arr[int(ix)]
        ix = numpy.array(ix, dtype=int).reshape(size)
        if not replace:
            assert len(set(ix.ravel().tolist())) == ix.size, "scripted choice without replacement has duplicates"
        return arr[ix]
    def integers(self, low, high=None, size=None, dtype=numpy.int64, endpoint=False):
        self.log.append(("integers", low, high, size))
        v = self._pop("integers", size)
        a = numpy.array(v, dtype=dtype)
        return a.reshape(size) if size is not None else a.reshape(())[()]
    # ---- normals: queue items are flat lists
    def normal(self, loc=0.0, scale=1.0, size=None):
        self.log.append(("normal", size))
        v = numpy.array(self._pop("normal", size), dtype=float)
        z = v.reshape(size) if size is not None else float(v.reshape(()))
        return loc + scale * z
    def standard_normal(self, size=None, dtype=numpy.float64, out=None):
        return self.normal(0.0, 1.0, size)
    def multivariate_normal(self, mean, cov, size=None, check_valid="warn", tol=1e-8, *, method="svd"):
        # scripted as: mean + z * sqrt(diag(cov)) for diagonal cov only (what pybrops uses)
        mean = numpy.asarray(mean, dtype=float); cov = numpy.asarray(cov, dtype=float)
        assert numpy.count_nonzero(cov - numpy.diag(numpy.diag(cov))) == 0, "scripted mvn: diagonal cov only"
        shp = (() if size is None else ((size,) if isinstance(size, int) else tuple(size))) + mean.shape
        self.log.append(("multivariate_normal", shp))
        z = numpy.array(self._pop("normal", shp), dtype=float).reshape(shp)
        return mean + z * numpy.sqrt(numpy.diag(cov))
