From Coq Require Import ZArith Reals Lra Lia.
From Flocq Require Import Core.
Open Scope R_scope.

Definition fexp := FLT_exp (-1074) 53.
Definition rnd := round radix2 fexp ZnearestE.
Global Instance prec53 : Prec_gt_0 53. Proof. unfold Prec_gt_0. lia. Qed.
Global Instance fexp_valid : Valid_exp fexp. Proof. unfold fexp. apply FLT_exp_valid. exact prec53. Qed.
Definition P := IZR (2^53).
Lemma Ppos : 0 < P. Proof. apply IZR_lt. reflexivity. Qed.
Lemma bpow_m53 : bpow radix2 (-53) = / P.
Proof. change (-53)%Z with (- (53))%Z. rewrite bpow_opp. reflexivity. Qed.

Lemma fmt_eps : generic_format radix2 fexp (/ P).
Proof. rewrite <- bpow_m53. apply generic_format_bpow. unfold fexp, FLT_exp. simpl. lia. Qed.
Lemma fmt_1 : generic_format radix2 fexp 1.
Proof. change 1 with (bpow radix2 0). apply generic_format_bpow. unfold fexp, FLT_exp. simpl. lia. Qed.
Lemma fmt_pred1 : generic_format radix2 fexp (1 - / P).
Proof.
  assert (E : 1 - / P = F2R (Float radix2 (2^53 - 1) (-53))).
  { unfold F2R. cbn [Fnum Fexp]. rewrite bpow_m53, minus_IZR. fold P. field. pose proof Ppos; lra. }
  rewrite E. apply generic_format_F2R. intros _. unfold cexp, fexp, FLT_exp.
  rewrite (mag_unique radix2 _ 0).
  - simpl. lia.
  - rewrite <- E. pose proof Ppos. assert (/P <= /2). { apply Rinv_le_contravar; [lra|]. unfold P. apply IZR_le. lia. }
    assert (0 < /P) by (apply Rinv_0_lt_compat; lra).
    rewrite Rabs_pos_eq by lra. change (bpow radix2 (0-1)) with (/2). change (bpow radix2 0) with 1. lra.
Qed.

Theorem div_boundary : forall c N : Z, (0 <= c <= N)%Z -> (0 < N <= 2^53)%Z ->
  (rnd (IZR c / IZR N) = 1 <-> c = N) /\ (rnd (IZR c / IZR N) = 0 <-> c = 0%Z) /\ 0 <= rnd (IZR c / IZR N) <= 1.
Proof.
  intros c N [Hc0 HcN] [HN0 HN].
  pose proof Ppos as HP.
  assert (HNr : 0 < IZR N) by (apply IZR_lt; lia).
  assert (HN53 : IZR N <= P) by (apply IZR_le; lia).
  assert (HiP : 0 < / P) by (apply Rinv_0_lt_compat; lra).
  assert (HiN : 0 < / IZR N) by (apply Rinv_0_lt_compat; lra).
  assert (Hinv : / P <= / IZR N) by (apply Rinv_le_contravar; lra).
  assert (Hmono: forall x y, x <= y -> rnd x <= rnd y).
  { intros x y Hxy. unfold rnd. apply round_le; auto with typeclass_instances. }
  assert (H1 : rnd 1 = 1) by (apply round_generic; [auto with typeclass_instances | apply fmt_1]).
  assert (H0 : rnd 0 = 0) by (apply round_0; auto with typeclass_instances).
  assert (He : rnd (/P) = /P) by (apply round_generic; [auto with typeclass_instances | apply fmt_eps]).
  assert (Hp : rnd (1 - /P) = 1 - /P) by (apply round_generic; [auto with typeclass_instances | apply fmt_pred1]).
  assert (Hc0r : 0 <= IZR c) by (apply IZR_le; lia).
  split; [|split].
  - split.
    + intro E. destruct (Z.eq_dec c N) as [->|Hne]; [reflexivity|exfalso].
      assert (Hlt : IZR c <= IZR N - 1). { rewrite <- minus_IZR. apply IZR_le. lia. }
      assert (H : IZR c / IZR N <= 1 - / P).
      { unfold Rdiv. assert (IZR c * / IZR N <= (IZR N - 1) * / IZR N) by (apply Rmult_le_compat_r; lra).
        replace ((IZR N - 1) * / IZR N) with (1 - / IZR N) in H by (field; lra). lra. }
      apply Hmono in H. rewrite Hp, E in H. lra.
    + intros ->. unfold Rdiv. rewrite Rinv_r by lra. exact H1.
  - split.
    + intro E. destruct (Z.eq_dec c 0) as [->|Hne]; [reflexivity|exfalso].
      assert (Hge : 1 <= IZR c) by (apply IZR_le; lia).
      assert (H : / P <= IZR c / IZR N).
      { unfold Rdiv. assert (1 * / IZR N <= IZR c * / IZR N) by (apply Rmult_le_compat_r; lra). lra. }
      apply Hmono in H. rewrite He, E in H. lra.
    + intros ->. unfold Rdiv. rewrite Rmult_0_l. exact H0.
  - split.
    + rewrite <- H0. apply Hmono. apply Rmult_le_pos; lra.
    + rewrite <- H1. apply Hmono. apply Rmult_le_reg_r with (IZR N); [lra|]. unfold Rdiv. rewrite Rmult_assoc, Rinv_l by lra. apply IZR_le in HcN. lra.
Qed.
Print Assumptions div_boundary.
