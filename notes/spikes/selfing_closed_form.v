From Coq Require Import QArith Qfield Lia Lqa.
Open Scope Q_scope.

Fixpoint qpow (x : Q) (k : nat) : Q := match k with O => 1 | S k' => x * qpow x k' end.
(* code: rprob_filial r k = 2r/(1+2r) * (1 - (0.5^k)*((1-2r)^k)) *)
Definition rfil (r : Q) (k : nat) : Q := (2*r) / (1 + 2*r) * (1 - qpow (1#2) k * qpow (1 - 2*r) k).
Definition D1 (r : Q) (k : nat) : Q := 1 - 2 * rfil r (S k).

Fixpoint AC (r : Q) (k : nat) : Q * Q :=
  match k with
  | O => (1, - r)
  | S k' => let '(a, c) := AC r k' in ((1 - r) * a + c, (r * a + c) / 2)
  end.
Definition G (r : Q) (k : nat) : Q := let '(a, c) := AC r k in (1 - r) * a + c.

Theorem selfing_closed_form : forall r, 0 <= r -> forall k,
  fst (AC r k) == 1 - 2 * rfil r k /\
  snd (AC r k) == (1 - 2 * rfil r (S k)) - (1 - r) * (1 - 2 * rfil r k).
Proof.
  intros r Hr. assert (Hd : ~ 1 + 2*r == 0) by lra.
  induction k as [|k [IHa IHc]].
  - cbn [AC fst snd]. unfold rfil. cbn [qpow]. split; field; exact Hd.
  - cbn [AC]. destruct (AC r k) as [a c]. cbn [fst snd] in *. rewrite IHa, IHc. unfold rfil. cbn [qpow].
    set (X := qpow (1#2) k). set (Y := qpow (1 - 2*r) k). split; field; exact Hd.
Qed.

Corollary G_is_D1 : forall r, 0 <= r -> forall k, G r k == D1 r k.
Proof. intros r Hr k. destruct (selfing_closed_form r Hr k) as [Ha Hc]. unfold G, D1. destruct (AC r k) as [a c]. cbn [fst snd] in *. rewrite Ha, Hc. ring. Qed.
Print Assumptions G_is_D1.
