From Coq Require Import List QArith Bool Lia Lra Lqa.
Import ListNotations.
Open Scope Q_scope.

(* expectation under independent Bernoulli(p_k) coordinates *)
Fixpoint E (ps : list Q) (f : list bool -> Q) : Q :=
  match ps with
  | [] => f []
  | p :: ps' => p * E ps' (fun l => f (true :: l)) + (1 - p) * E ps' (fun l => f (false :: l))
  end.

Lemma E_ext ps : forall f g, (forall l, f l == g l) -> E ps f == E ps g.
Proof. induction ps as [|p ps IH]; intros f g H; cbn [E]; [apply H|].
  rewrite (IH (fun l => f (true::l)) (fun l => g (true::l))), (IH (fun l => f (false::l)) (fun l => g (false::l))); [reflexivity| |]; intros; apply H. Qed.

Lemma E_scal ps : forall c f, E ps (fun l => c * f l) == c * E ps f.
Proof. induction ps as [|p ps IH]; intros c f; cbn [E]; [reflexivity|]. rewrite !IH. ring. Qed.

Lemma E_const ps c : E ps (fun _ => c) == c.
Proof. induction ps as [|p ps IH]; cbn [E]; [reflexivity|]. rewrite !IH. ring. Qed.

Definition sgn (b : bool) : Q := if b then -1 else 1.

(* product of signs of the coordinates selected by mask *)
Fixpoint psign (mask xo : list bool) : Q :=
  match mask, xo with
  | m :: ms, x :: xs => (if m then sgn x else 1) * psign ms xs
  | _, _ => 1
  end.
Fixpoint pexp (mask : list bool) (ps : list Q) : Q :=
  match mask, ps with
  | m :: ms, p :: ps' => (if m then 1 - 2 * p else 1) * pexp ms ps'
  | _, _ => 1
  end.

Theorem E_psign : forall ps mask, E ps (psign mask) == pexp mask ps.
Proof.
  induction ps as [|p ps IH]; intros mask.
  - destruct mask; reflexivity.
  - destruct mask as [|m ms].
    + cbn [E psign pexp]. rewrite !E_const. ring.
    + cbn [E pexp]. 
      rewrite (E_ext ps (fun l => psign (m::ms) (true::l)) (fun l => (if m then sgn true else 1) * psign ms l)) by (intros; reflexivity).
      rewrite (E_ext ps (fun l => psign (m::ms) (false::l)) (fun l => (if m then sgn false else 1) * psign ms l)) by (intros; reflexivity).
      rewrite !E_scal, IH. destruct m; unfold sgn; ring.
Qed.
Print Assumptions E_psign.
