#!/bin/bash
# isolated workspace for one property: a worktree of /verif (branch ws-<id>) with the compiled Coq files copied in,
# and a worktree of /repo (branch fix-<id>).  usage: mkws.sh C05
set -e
id=$1; ws=/tmp/ws/$id
mkdir -p $ws
git -C /verif worktree add -q -B ws-$id $ws/verif HEAD
rsync -a /verif/coq/ $ws/verif/coq/
git -C /repo worktree add -q -B fix-$id $ws/repo HEAD
echo "$ws ready"
