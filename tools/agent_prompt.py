#!/usr/bin/env python3
"""print the standard prompt for a property-building sub-agent:  agent_prompt.py CXX 'extra notes' """
import json, sys, re
pid = sys.argv[1]; extra = sys.argv[2] if len(sys.argv) > 2 else ""
prop = [json.loads(l) for l in open('/verif/properties.jsonl') if json.loads(l)['id'] == pid][0]
design = open('/verif/DESIGN.md').read()
m = re.search(r"^### %s .*?(?=^### C\d\d |^## 7\.)" % pid, design, re.S | re.M)
print(f"""Build the verification check for property {pid} of pybrops in /verif.

FIRST read, in this order: /verif/harness/AGENT_BRIEF.md (rules and what is expected), /verif/harness/README.md (module protocol),
then the exemplar: /verif/harness/props/c09.py, /verif/coq/Model/C09_Stats.v, /verif/coq/Proofs/C09_Stats.v, /verif/coq/Props/C09.v,
and /verif/coq/Lib/Common.v. Then read the pybrops code the property is anchored in (under /repo/pybrops).

PROPERTY {pid} — {prop['title']}
Statement: {prop['statement']}
Quantifier: {prop['quantifier']['text']}
Anchors: files {prop['anchors']['files']}
Mechanisms: {json.dumps(prop['anchors']['mechanism'])}
Observe at: {prop['anchors'].get('observe_at')}

PLAN from DESIGN.md (a plan, not a contract — the core theorems and a strong correspondence come first; say in your report what you left out):
{m.group(0) if m else ''}

NOTES specific to {pid}:
{extra}

Work order: (1) probe the implementation and write run_impl + pred + gen_cases so that `pred` passes on the unchanged tree; (2) write the Coq model and emit_case until the correspondence agrees on quick and thorough; (3) prove the core theorems and put them in Props/{pid}.v; (4) mutation-test on a scratch copy (VERIF_REPO) and strengthen; (5) extend model/theorems as far as time allows. Keep the check passing (exit 0) at every stopping point. Finish with the report described in the brief.""")
