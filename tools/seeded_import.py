#!/usr/bin/env python3
"""import a sub-agent's change from its scratch worktree into /verif/seeded/<name>/ after confirming it independently:
demo passes on /repo, fails in the worktree, baseline tests still pass in the worktree; then triage the property's quick
check against the worktree (VERIF_REPO) — the final run against /repo itself is tools/seeded_run.py.
usage: seeded_import.py CXX <slug> <worktree> "<change>" "<needs>" """
import json, os, subprocess, sys, shutil, re
pid, slug, wt, change, needs = sys.argv[1:6]
name = "%s-%s" % (pid, slug); d = "/verif/seeded/" + name
os.makedirs(d, exist_ok=True)
diff = subprocess.run("git -C %s diff -- pybrops" % wt, shell=True, capture_output=True).stdout
assert diff.strip(), "no change in " + wt
open(d + "/patch.diff", "wb").write(diff)
demo = [f for f in os.listdir(wt) if f.startswith("demo") and f.endswith(".py")]
assert demo, "no demo"
for f in demo: shutil.copy(os.path.join(wt, f), d + "/" + f)
def run(repo, f):
    env = dict(os.environ, PYTHONPATH="%s:/tmp/mutkit" % repo, PYTHONHASHSEED="0")
    return subprocess.run(["/venv/bin/python", os.path.join(d, f)], cwd=repo, env=env, capture_output=True, text=True, timeout=1800)
r0 = run("/repo", demo[0]); r1 = run(wt, demo[0])
ok_demo = r0.returncode == 0 and r1.returncode != 0
# patch must apply to /repo as it is now
ap = subprocess.run("git -C /repo apply --check %s/patch.diff" % d, shell=True, capture_output=True, text=True)
t = subprocess.run("cd %s && /venv/bin/python -m pytest -q -p no:cacheprovider --timeout=900 --continue-on-collection-errors 2>&1 | tail -1" % wt,
                   shell=True, capture_output=True, text=True).stdout.strip()
ok_tests = re.search(r"\b92 passed\b", t) is not None
meta = {"property": pid, "origin": "independent sub-agent (round %s) given only the property text and a scratch worktree" % os.environ.get("SEEDED_ROUND", "2"),
        "change": change, "needs": needs,
        "confirmed": "%s exits %d on /repo and %d with the patch (%s); baseline suite in the patched worktree: %s; patch applies to /repo: %s"
                     % (demo[0], r0.returncode, r1.returncode, (r1.stderr.strip().splitlines() or ["?"])[-1][:200], t, ap.returncode == 0)}
if not (ok_demo and ok_tests and ap.returncode == 0):
    meta["detection"] = "NOT CONFIRMED"
    json.dump(meta, open(d + "/meta.json", "w"), indent=1); print(name, "NOT CONFIRMED", meta["confirmed"]); sys.exit(1)
p = subprocess.run("cd /verif && VERIF_REPO=%s timeout 1500 /venv/bin/python harness/check.py %s quick" % (wt, pid), shell=True, capture_output=True, text=True,
                   env=dict(os.environ, VERIF_KEEP_EVIDENCE="1"))
lines = [l for l in p.stdout.splitlines() if l.startswith("VIOLATION") or l.startswith(pid + " quick")]
caught = p.returncode == 1 and any(l.startswith("VIOLATION") for l in lines)
meta["triage"] = ("caught" if caught else "MISSED") + " (VERIF_REPO=worktree): " + (lines[-1][-260:] if lines else p.stdout[-300:])
json.dump(meta, open(d + "/meta.json", "w"), indent=1)
print(name, "->", meta["triage"])
