#!/bin/bash
# phase-2 workspace: worktree of /verif (branch p2-<id>) with compiled Coq files, and a detached worktree of /repo at its head
set -e
id=$1; ws=/tmp/ws2/$id
mkdir -p $ws
git -C /verif worktree add -q -B p2-$id $ws/verif HEAD
rsync -a /verif/coq/ $ws/verif/coq/
git -C /repo worktree add -q --detach $ws/repo HEAD
echo "$ws ready"
git -C $ws/verif checkout -- coq/Gen     # generated tables: take the committed ones, not whatever a concurrent mutated run left in /verif
