#!/usr/bin/env python3
"""apply each seeded change to /repo, run the property's quick check, record the outcome in meta.json, undo.
usage: seeded_run.py [name ...]   (default: all under /verif/seeded).  /repo must be clean."""
import json, os, subprocess, sys, glob, re
V = "/verif"
names = sys.argv[1:] or sorted(os.path.basename(d) for d in glob.glob(V + "/seeded/*") if os.path.isdir(d))
if subprocess.run("git -C /repo status --porcelain -- pybrops", shell=True, capture_output=True, text=True).stdout.strip():
    sys.exit("/repo is not clean")
for n in names:
    d = os.path.join(V, "seeded", n)
    meta = json.load(open(d + "/meta.json"))
    pid = meta["property"]
    if not os.path.exists(f"{V}/harness/props/{pid.lower()}.py"):
        print(n, "-> no check yet"); continue
    r = subprocess.run(f"git -C /repo apply {d}/patch.diff", shell=True, capture_output=True, text=True)
    if r.returncode:
        print(n, "-> patch does not apply:", r.stderr[:200]); continue
    ev = f"{V}/evidence/{pid}.json"; keep = open(ev, "rb").read() if os.path.exists(ev) else None
    try:
        p = subprocess.run(f"cd {V} && timeout 1500 /venv/bin/python harness/check.py {pid} quick", shell=True, capture_output=True, text=True)
    finally:
        subprocess.run("git -C /repo checkout -- .", shell=True)
        if keep is not None: open(ev, "wb").write(keep)          # evidence must describe the unchanged tree
    lines = [l for l in p.stdout.splitlines() if l.startswith("VIOLATION") or l.startswith(pid + " quick")]
    caught = p.returncode == 1 and any(l.startswith("VIOLATION") for l in lines)
    concrete = any(l.startswith("VIOLATION") and "no-failing-input-found" not in l for l in lines)
    summ = lines[-1] if lines else p.stdout[-300:]
    m = re.search(r"disagreements (\d+), predicate failures (\d+)", summ)
    meta["detection"] = ("CAUGHT by %s quick (%s replay; %s in-Coq disagreements, %s predicate failures)" % (pid, "concrete" if concrete else "no-failing-input-found", m.group(1) if m else "?", m.group(2) if m else "?")) if caught else "MISSED by %s quick: %s" % (pid, summ[-200:])
    meta["ran"] = "tools/seeded_run.py %s  (git -C /repo apply patch.diff; harness/check.py %s quick; git -C /repo checkout -- .)" % (n, pid)
    json.dump(meta, open(d + "/meta.json", "w"), indent=1)
    print(n, "->", meta["detection"])
