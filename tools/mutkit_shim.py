import os, sys
os.environ.setdefault("PYTHONHASHSEED", "0")
import numpy
if not hasattr(numpy, "float_"):
    numpy.float_ = numpy.float64
if not hasattr(numpy, "in1d"):
    numpy.in1d = lambda a, b, **k: numpy.isin(numpy.asarray(a).ravel(), b, **k)
