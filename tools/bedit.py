#!/usr/bin/env python3
"""byte-exact single replacement in a file (keeps CRLF/LF as they are).
usage: bedit.py FILE OLD NEW   (OLD/NEW are python string literals without quotes; \\n in OLD/NEW is matched to the file's own line ending)"""
import sys
path, old, new = sys.argv[1], sys.argv[2], sys.argv[3]
data = open(path, 'rb').read()
crlf = b'\r\n' in data
def enc(s):
    b = s.encode('utf8').decode('unicode_escape').encode('utf8') if '\\' in s else s.encode('utf8')
    b = b.replace(b'\r\n', b'\n')
    return b.replace(b'\n', b'\r\n') if crlf else b
o, n = enc(old), enc(new)
if data.count(o) != 1:
    sys.exit("expected exactly one occurrence, found %d" % data.count(o))
open(path, 'wb').write(data.replace(o, n))
print("edited", path, "(CRLF)" if crlf else "(LF)")
