#!/usr/bin/env python3
"""round-2 prompt for an independent 'seeded change' sub-agent: property text + scratch worktree + one-line list of
changes that earlier agents already proposed for this property (so that the new one is different). Nothing from the checks."""
import json, sys, glob, subprocess
pid, wt = sys.argv[1], sys.argv[2]
base = subprocess.run([sys.executable, '/verif/tools/mutator_prompt.py', pid, wt], capture_output=True, text=True).stdout
prev = []
for f in sorted(glob.glob('/verif/seeded/%s-*/meta.json' % pid)):
    prev.append(json.load(open(f)).get('change', ''))
extra = ""
if prev:
    extra = ("\n\nChanges that were already proposed for this property by earlier reviewers — yours must be substantively different "
             "(another function/class, another mechanism, another part of the property statement):\n" + "\n".join("- " + p for p in prev))
extra += ("\n\nAim for a part of the property statement or a class/function among those anchored that is easy to overlook "
          "(a less common class of the family, a non-default argument, an interaction between two methods, a later step of a "
          "multi-step sequence). The change must be small (a few lines) and plausible in review.")
print(base + extra)
