#!/usr/bin/env python3
"""import the changes of one mutator round: import_round.py <round> <json: {pid: [slug, change, needs]}> <worktree root> CXX ..."""
import json, sys, subprocess, os
rnd, table, root = sys.argv[1:4]
tab = json.load(open(table))
for p in sys.argv[4:]:
    slug, change, needs = tab[p]
    env = dict(os.environ, SEEDED_ROUND=rnd, VERIF_JOBS=os.environ.get("VERIF_JOBS", "6"))
    r = subprocess.run(["/venv/bin/python", "/verif/tools/seeded_import.py", p, slug, os.path.join(root, p), change, needs],
                       env=env, capture_output=True, text=True, cwd="/verif")
    print((r.stdout + r.stderr)[-500:], flush=True)
