#!/usr/bin/env python3
"""run the quick check of a seeded change under OTHER seeds than the default (vp check uses VERIF_SEED=1), in a scratch
worktree of /repo (never /repo itself): detection that rests on a handful of random cases may not survive a new seed.
usage: seed_robustness.py <seed> name ...    -> one line per change"""
import json, os, subprocess, sys
seed = sys.argv[1]
for n in sys.argv[2:]:
    d = "/verif/seeded/" + n
    pid = json.load(open(d + "/meta.json"))["property"]
    wt = "/tmp/sd/" + n
    subprocess.run("git -C /repo worktree remove --force %s 2>/dev/null; git -C /repo worktree add -q --detach %s HEAD" % (wt, wt), shell=True)
    r = subprocess.run("git -C %s apply %s/patch.diff" % (wt, d), shell=True, capture_output=True, text=True)
    if r.returncode:
        print(n, "patch does not apply", flush=True); continue
    env = dict(os.environ, VERIF_REPO=wt, VERIF_SEED=seed, VERIF_KEEP_EVIDENCE="1", VERIF_JOBS=os.environ.get("VERIF_JOBS", "5"))
    p = subprocess.run("cd /verif && timeout 1500 /venv/bin/python harness/check.py %s quick" % pid, shell=True, capture_output=True, text=True, env=env)
    lines = [l for l in p.stdout.splitlines() if l.startswith(pid + " quick")]
    viol = [l for l in p.stdout.splitlines() if l.startswith("VIOLATION")]
    concrete = any("no-failing-input-found" not in l for l in viol)
    print(n, "seed", seed, "->", "CAUGHT" if viol else "MISSED", "(concrete)" if concrete else "(static only)" if viol else "", (lines[-1][len(pid) + 7:][:150] if lines else p.stdout[-200:]), flush=True)
    subprocess.run("git -C /repo worktree remove --force %s" % wt, shell=True)
