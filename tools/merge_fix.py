#!/usr/bin/env python3
"""merge the work of an isolated fix workspace (tools/mkws.sh) back: cherry-pick the library commits of branch fix-<id>
onto /repo's main, cherry-pick the framework commits of branch ws-<id> onto /verif's main, and rewrite the commit hashes
recorded in known_findings.d/<id>.json to the hashes the fixes have in /repo.   usage: merge_fix.py C17"""
import subprocess, sys, json, re, os
pid = sys.argv[1]
def sh(cmd, check=True):
    r = subprocess.run(cmd, shell=True, capture_output=True, text=True)
    if check and r.returncode: sys.exit("FAILED: %s\n%s%s" % (cmd, r.stdout, r.stderr))
    return r.stdout.strip()
assert not sh("git -C /repo status --porcelain -- pybrops"), "/repo not clean"
base = sh("git -C /repo merge-base main fix-%s" % pid)
commits = sh("git -C /repo rev-list --reverse %s..fix-%s" % (base, pid)).split()
mapping = {}
onmain = {l.split(" ", 1)[1]: l.split(" ", 1)[0] for l in sh("git -C /repo log --format='%H %s' main").splitlines()}
for c in commits:
    subj = sh("git -C /repo log -1 --format=%%s %s" % c)
    assert subj.startswith("fix:"), "commit %s does not start with fix: (%s)" % (c, subj)
    if subj in onmain:                      # already picked by an earlier (interrupted) run: only recover the mapping
        mapping[c] = onmain[subj]; print("repo: %s already on main as %s" % (c[:8], onmain[subj][:8])); continue
    sh("git -C /repo cherry-pick %s" % c)
    new = sh("git -C /repo rev-parse HEAD")
    mapping[c] = new
    print("repo: %s -> %s  %s" % (c[:8], new[:8], subj))
vbase = sh("git -C /verif merge-base main ws-%s" % pid)
vcommits = sh("git -C /verif rev-list --reverse %s..ws-%s" % (vbase, pid)).split()
vonmain = set(sh("git -C /verif log --format=%s main").splitlines())
for c in vcommits:
    if sh("git -C /verif log -1 --format=%%s %s" % c) in vonmain:
        print("verif: %s already on main" % c[:8]); continue
    r = subprocess.run("git -C /verif cherry-pick %s" % c, shell=True, capture_output=True, text=True)
    if r.returncode:
        un = sh("git -C /verif diff --name-only --diff-filter=U", check=False).split()
        if un and all(u.startswith("evidence/") or u in ("DESIGN_APPENDIX.md", "known_findings.txt", "MANIFEST.json") for u in un):
            for u in un: sh("git -C /verif checkout --ours %s && git -C /verif add %s" % (u, u))      # regenerated files: keep ours
            sh("git -C /verif -c core.editor=true cherry-pick --continue")
            print("verif: picked", c[:8], "(generated files kept from main)"); continue
        print("verif: cherry-pick of %s stopped:\n%s%s" % (c[:8], r.stdout, r.stderr)); sys.exit(2)
    print("verif: picked", c[:8], sh("git -C /verif log -1 --format=%s"))
f = "/verif/known_findings.d/%s.json" % pid
if os.path.exists(f):
    s = open(f).read()
    for old, new in mapping.items():
        for k in (40, 12, 10, 9, 8, 7):
            s = re.sub(r'("commit"\s*:\s*")%s(")' % old[:k], r"\g<1>%s\2" % new, s) if k < 40 else s.replace(old, new)
    open(f, "w").write(s)
    print("hashes in", f, ":", re.findall(r'"commit"\s*:\s*"(\w+)"', s))
