#!/usr/bin/env python3
"""prompt for an independent 'seeded change' sub-agent: gets ONLY the property text and a scratch worktree"""
import json, sys
pid, wt = sys.argv[1], sys.argv[2]
prop = [json.loads(l) for l in open('/verif/properties.jsonl') if json.loads(l)['id'] == pid][0]
print(f"""You are testing how robust a Python library is against subtle regressions. You have your own scratch git worktree of the library **pybrops** (plant-breeding simulation, numpy based) at {wt} (package dir {wt}/pybrops). Work ONLY inside {wt} and /tmp/mutkit; do not look at or touch /verif or /repo.

Environment: run Python as `cd {wt} && PYTHONPATH={wt}:/tmp/mutkit /venv/bin/python yourscript.py`, and start every script with `import shim` (it adds two numpy aliases the package needs to import; see /tmp/mutkit/shim.py). No network. The repository's test suite is `cd {wt} && /venv/bin/python -m pytest -q -p no:cacheprovider --timeout=900 --continue-on-collection-errors` — most test modules fail at collection in this environment for unrelated reasons; the baseline is '92 passed' and your change must keep exactly those 92 passing. Some files use CRLF line endings: edit with care (keep each file's line endings; make small in-place edits).

The property below is supposed to hold for the library:

PROPERTY {pid} — {prop['title']}
{prop['statement']}
It is meant to hold: {prop['quantifier']['text']}
Relevant source files: {', '.join(prop['anchors']['files'])}

Your task: produce ONE realistic change to the library source (the kind of slip a developer could make in a refactor or 'optimisation': an off-by-one, a comparison flipped at a boundary, a label array forgotten in one branch, a wrong axis, a swapped pair, a stale cache, a missing reset, an ignored argument, two sites that each look fine alone …) that BREAKS this property while the package still imports and the 92 baseline tests still pass. Prefer a change that needs something specific to manifest — an unusual input (size 1, duplicates, ties, zeros, a boundary value, a non-default argument, a particular class among several), a multi-step sequence of operations, or two cooperating edits — rather than one that any ordinary use exposes at once. Do not merely delete functionality or raise exceptions everywhere; the code should look plausible in review.

Deliver, inside {wt}:
1. the change itself, left UNCOMMITTED in the working tree (so that `git -C {wt} diff` shows it);
2. `{wt}/demo_{pid}.py` — a small self-contained script (starts with `import shim`) that exits 0 on the ORIGINAL code and exits non-zero (assertion failure with a clear message) WITH your change, demonstrating that the property is broken; verify both — to test the original do NOT use git stash (it is shared between worktrees): `git diff > /tmp/mutkit/{pid}.patch; git apply -R /tmp/mutkit/{pid}.patch; <run demo>; git apply /tmp/mutkit/{pid}.patch`;
3. a final message stating: the file(s)/function(s) changed, why the property breaks, what specific input/sequence it needs in order to manifest, and the exact commands you ran with their outcomes (demo on original: pass; demo with change: fail; test suite: 92 passed).""")
