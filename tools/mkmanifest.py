#!/usr/bin/env python3
"""(Re)generate MANIFEST.json from the set of property modules that exist (harness/props/cXX.py with a
LEVEL_TEXT) — keeps the manifest valid at all times; properties without a module are listed not_applicable
with the reason 'check not built yet' (no property is declared out of reach of the technique)."""
import json, os, re, sys, importlib.util
V = os.path.dirname(os.path.dirname(os.path.abspath(__file__)))
props = [json.loads(l) for l in open(os.path.join(V, "properties.jsonl"))]
checks, na = [], []
for p in props:
    pid = p["id"]
    path = os.path.join(V, "harness", "props", pid.lower() + ".py")
    meta = {}
    if os.path.exists(path):
        import ast
        for node in ast.parse(open(path).read()).body:
            if isinstance(node, ast.Assign) and len(node.targets) == 1 and isinstance(node.targets[0], ast.Name) \
               and node.targets[0].id in ("LEVEL_TEXT", "LEVEL_NOTE", "TECHNIQUE", "DESIGN_REF"):
                meta[node.targets[0].id] = ast.literal_eval(node.value)
    if "LEVEL_TEXT" in meta:
        checks.append({
            "property_id": pid,
            "quick_cmd": "/venv/bin/python harness/check.py %s quick" % pid,
            "thorough_cmd": "/venv/bin/python harness/check.py %s thorough" % pid,
            "evidence_file": "/verif/evidence/%s.json" % pid,
            "replay_cmd_template": "/venv/bin/python harness/check.py %s --replay {path}" % pid,
            "engine": "coq-proof+correspondence",
            "level_claimed": {"category": "proof", "text": meta["LEVEL_TEXT"], "design_ref": meta.get("DESIGN_REF", "DESIGN.md section 6, " + pid)},
            "level_note": meta.get("LEVEL_NOTE", ""),
            "technique": meta.get("TECHNIQUE", "machine-checked proof in Coq over an executable Gallina model + in-Coq differential correspondence with the implementation"),
        })
    else:
        na.append({"property_id": pid, "reason": "check not built yet in this round (the technique applies; see DESIGN.md section 6)"})
man = {
    "version": 1,
    "setup_cmd": "/venv/bin/python harness/setup.py",
    "hooks": {"guard": "PYBROPS_VERIF", "enable": "no hooks are needed: every stochastic component is scripted from outside through its rng argument or the global numpy stream; the harness sets PYBROPS_VERIF=1 for uniformity",
              "baseline_off_cmd": "cd /repo && /venv/bin/python -m pytest -ra -q -p no:cacheprovider --timeout=900 --continue-on-collection-errors",
              "source_commits": [], "add_only": True},
    "engines": [{"name": "coq-proof+correspondence", "path": "/verif/harness/check.py",
                 "serves_properties": [c["property_id"] for c in checks],
                 "kind_free_text": "Coq 8.16.1 theorems over hand-written executable Gallina models (coq/Model, coq/Proofs, coq/Props) and translator-regenerated tables (coq/Gen); the tie to /repo is a correspondence check evaluated inside Coq by vm_compute on generated cases that embed the implementation's outputs, plus an independent executable predicate for violation search"}],
    "checks": checks,
    "not_applicable": na,
    "notes": "See DESIGN.md. known_findings.json lists fixed/known defects; replays/ is written at run time.",
}
json.dump(man, open(os.path.join(V, "MANIFEST.json"), "w"), indent=1)
print("MANIFEST: %d checks, %d not yet built" % (len(checks), len(na)))
