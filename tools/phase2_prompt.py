#!/usr/bin/env python3
"""prompt for a phase-2 sub-agent (coverage audit + kernel translator + theorems) of ONE property.
usage: phase2_prompt.py CXX   (workspace /tmp/ws2/CXX must exist: tools/mkws2.sh CXX)"""
import json, sys, glob, os
pid = sys.argv[1]
ws = "/tmp/ws2/%s" % pid
seeded = []
for f in sorted(glob.glob("/verif/seeded/%s-*/meta.json" % pid)):
    m = json.load(open(f)); name = os.path.basename(os.path.dirname(f))
    det = m.get("detection") or m.get("triage") or "not yet run"
    seeded.append((name, m.get("change", ""), m.get("needs", ""), det))
missed = [s for s in seeded if "MISSED" in s[3].upper() or "NOT YET" in s[3].upper() or "does not apply" in s[3]]
extra = ""
if len(sys.argv) > 2:
    extra = "\n\n## Additional notes for this property\n" + open(sys.argv[2]).read()
print(f"""You are extending a machine-checked-proof (Coq 8.16) verification framework for the Python library pybrops, for ONE property: {pid}.

Your complete brief is the file {ws}/verif/tools/PHASE2_BRIEF.md (replace CXX by {pid} everywhere) — read it first, in full, and follow it; it tells you what else to read. Your isolated workspace is {ws}/ (verif worktree on branch p2-{pid} with compiled Coq files; repo worktree, read-only except scratch mutations that you undo). Never touch /verif, /repo or other workspaces. Run the check as
`cd {ws}/verif && export VERIF_JOBS=4 && VERIF_REPO={ws}/repo timeout 1500 /venv/bin/python harness/check.py {pid} quick`.

Priorities, in this order:
1. Section B of the brief (kernel expressions regenerated from the source: `harness/translate/{pid.lower()}_kernel.py` -> `coq/Gen/{pid}_Kernel.v`, linked to the hand model by lemmas in `coq/Proofs/{pid}_Kernel.v`, theorems about the generated definitions in `coq/Props/{pid}.v`, `translate()` in `harness/props/{pid.lower()}.py`). Copy the C09 exemplar named in the brief. Choose the 4-12 expressions on which the property's theorems really turn (boundary comparisons, quotient-vs-reciprocal, formula bodies, loop guards, index expressions, argument order, which attribute is copied to which). If the property already has regenerated tables (C03, C08, C16) ADD a kernel file for the numeric/boolean expressions that the tables do not cover. Do the flip tests the brief asks for.
2. Seeded changes listed below that the check MISSES (or that no longer apply to the current source: re-create the same slip by hand in your scratch repo): close the gap in the generators/drivers/predicate (section A of the brief) so that the quick check reports a VIOLATION with a concrete replay, in general — not by special-casing the seeded change. Confirm by applying `/verif/seeded/<name>/patch.diff` to your scratch repo worktree (`git -C {ws}/repo apply ...`), running the check, and undoing (`git -C {ws}/repo checkout -- .`). You may read /verif/seeded/{pid}-*/ (patch, demo, meta) for this.
3. Section A coverage audit in general + at least eight mutations of your own; section C theorems.

Seeded changes known for {pid} (name | change | what it needs | last outcome):
""" + "\n".join("- %s | %s | needs: %s | %s" % s for s in seeded) + f"""

Currently NOT detected (work list item 2): {', '.join(s[0] for s in missed) if missed else 'none'}.

Hard rules: the check on the unchanged library must end with exit 0 and no VIOLATION line, quick tier within ~3 minutes of wall time (with VERIF_JOBS=4) — run quick at the end and paste its last line; run thorough once if time permits. No `Admitted`/`admit`/`Axiom`/`Parameter`/`Conjecture`; every `coqc`/`make` under `timeout`; `timeout 20 sauto` if you use sauto. Never weaken an existing theorem, predicate or comparison. Keep every generated `coq/Gen/*.v` committed as produced from the UNMUTATED source (regenerate after undoing your last mutation, before committing). Commit in your verif worktree (`git -C {ws}/verif add -A && git -C {ws}/verif commit -m "{pid} phase 2: ..."`); do not push or merge. If something genuinely violates the property in the unchanged library, follow the brief's rule (known entry + `_refuted` + narrow classify + proposed minimal repair in your report) — do not repair the library.

Budget: aim to finish within about two hours of wall time; commit working intermediate states as you go (a committed, passing state is what counts).

Final report (concise): kernel definitions generated (name <- source location; which theorem depends on each) and flip-test outcomes; which seeded changes are now caught; coverage dimensions added; your own mutation list with outcomes; theorems added; new findings with witnesses; last line of the quick run on the unchanged tree and its wall time.{extra}""")
